#!/usr/bin/env python3
"""Sensitivity: own catalogue of small, compiling changes to /repo/src/biogeme (textual substitutions on a scratch
copy, never on /repo), each run against the quick check of the property it should break.

  tools/sensitivity.py [--sessions N] [ids...]     -> prints a table; writes /verif/mutants/RESULTS.json

These are NOT the independently seeded changes (those are under /verif/seeded); they are the author's own
catalogue (DESIGN appendix D), kept to show that each oracle is alive."""
import json, os, shutil, subprocess, sys, tempfile

VERIF = os.path.dirname(os.path.dirname(os.path.abspath(__file__)))
PY = '/venv/bin/python'

# id, property, file (under src/biogeme), old, new, expected oracle family
M = [
 ('M15-01', 'C15', 'biogeme.py', "            if f >= self.bestIteration:\n                self.bestIteration = f\n", "            if True:\n                self.bestIteration = f\n", 'I15.2'),
 ('M15-02', 'C15', 'biogeme.py', '                            f"{self.id_manager.free_betas.names[i]} = {v}",', '                            f"{self.id_manager.free_betas.names[i]} = {v:.10g}",', 'I15.1'),
 ('M15-03', 'C15', 'biogeme.py', "        self.calculate_init_likelihood()\n        self.bestIteration = None\n", "        self.calculate_init_likelihood()\n", 'I15.2'),
 ('M15-04', 'C15', 'biogeme.py', "                os.replace(tmp_file_name, file_name)\n", "                os.replace(tmp_file_name, file_name) if len(x) != 2 else shutil_copy(tmp_file_name, file_name)\n", 'I15.1'),
 ('M15-05', 'C15', 'biogeme.py', "            keep_save_iterations = self.save_iterations\n            self.save_iterations = False\n", "            keep_save_iterations = self.save_iterations\n", 'I15.3b'),
 ('M15-06', 'C15', 'biogeme.py', '        return f"__{self.modelName}.iter"', '        return f"__{self.modelName.split()[0]}.iter"', 'I15'),
 ('M15-07', 'C15', 'biogeme.py', "        if not np.isfinite(gradnorm):\n", "        if not np.isfinite(f):\n", 'I15.3'),
 ('M15-08', 'C15', 'biogeme.py', "                    betas[name] = float(value)", "                    betas[name] = float(value[:12])", 'I15.4'),
 ('M14-01', 'C14', 'filenames.py', "    while the_file.is_file():", "    if the_file.is_file():", 'I14.1'),
 ('M14-02', 'C14', 'filenames.py', "    while the_file.is_file():", "    while the_file.is_file() and number < 3:", 'I14.1'),
 ('M14-03', 'C14', 'results.py', "        self.data.pickleFileName = bf.get_new_file_name(self.data.modelName, 'pickle')", "        self.data.pickleFileName = self.data.modelName + '.pickle'", 'I14.1'),
 ('M14-04', 'C14', 'parameters.py', "TRUE_STR = ('True', 'true', 'Yes', 'yes')", "TRUE_STR = ('True', 'true', 'Yes')", 'I14.4'),
 ('M14-05', 'C14', 'results.py', "        for name, values in table.iterrows():\n            html += f'<tr class=biostyle><td>{name}</td>'", "        for name, values in list(table.iterrows())[:-1] if len(table) > 2 else table.iterrows():\n            html += f'<tr class=biostyle><td>{name}</td>'", 'I14.5'),
 ('M14-06', 'C14', 'results.py', "            results += f' {values[\"Value\"]: >+19.12e}'", "            results += f' {values[\"Value\"]: >+19.5e}'", 'I14.5'),
 ('M14-07', 'C14', 'results.py', "            pickle.dump(self.data, f)\n", "            import copy as _c\n            _d = _c.copy(self.data)\n            _d.bhhh = np.round(_d.bhhh, 4)\n            pickle.dump(_d, f)\n", 'I14.3'),
 ('M14-08', 'C14', 'database.py', "        self.data.to_csv(data_file_name, sep='\\t', index_label='__rowId')", "        self.data.round(1).to_csv(data_file_name, sep='\\t', index_label='__rowId')", 'I14.3d'),
 ('M13-01', 'C13', 'database.py', "        to_be_removed = (self.data[column_name] != 0).to_numpy()", "        to_be_removed = (self.data[column_name] > 0).to_numpy()", 'I13.rows'),
 ('M13-02', 'C13', 'database.py', "        sample = self.data.iloc[np.random.randint(0, len(self.data), size=size)]", "        sample = self.data.loc[np.random.randint(0, len(self.data), size=size)]", 'I13.sub'),
 ('M13-03', 'C13', 'database.py', "        reduced_data_frame = self.data.iloc[list(a_range)]", "        reduced_data_frame = self.data.loc[list(a_range)]", 'I13.extract'),
 ('M13-04', 'C13', 'database.py', "            estimation_sets.append(pd.concat(the_slices[:i] + the_slices[i + 1 :]))", "            estimation_sets.append(pd.concat(the_slices[:i] + the_slices[i:]))", 'I13.folds'),
 ('M13-05', 'C13', 'database.py', "        self.data[column] *= scale", "        self.data[column] = self.data[column] * scale * (scale if scale == 0.5 else 1)", 'I13.values'),
 ('M13-06', 'C13', 'database.py', "        return self.data[self.data[column_name] == value].count()[column_name]", "        return self.data[self.data[column_name] >= value].count()[column_name]", 'I13.count'),
 ('M13-07', 'C13', 'tools/database.py', "        sorted_list = sorted(list(the_columns))\n        first = True\n        i = 0", "        sorted_list = sorted(list(the_columns))\n        first = True\n        i = 0\n        x = x.iloc[::-1] if len(x) == 3 else x", 'I13.flat'),
 ('M09-01', 'C09', 'database.py', "                local_map[i] = [min(indices), max(indices)]", "                local_map[i] = [min(indices), min(indices) + len(indices) - (2 if len(indices) > 3 else 1)]", 'I09'),
 ('M09-02', 'C09', 'biogeme.py', "    def _prepare_database_for_formula(self) -> None:\n        # Rebuild the map for panel data\n        if self.database.is_panel():\n            self.database.build_panel_map()", "    def _prepare_database_for_formula(self) -> None:\n        # Rebuild the map for panel data\n        pass", 'I09'),
 ('M09-03', 'C09', 'database.py', "            self.data = self.data.sort_values(by=self.panelColumn)\n", "            self.data = self.data.sort_values(by=self.panelColumn) if self.data[self.panelColumn].min() >= 0 else self.data\n", 'I09'),
 ('M04-01', 'C04', 'biogeme.py', "            return f / float(self.database.get_sample_size())", "            return f / float(max(1, self.database.get_sample_size() - 1))", 'I04.sum'),
 ('M04-02', 'C04', 'biogeme.py', "                gradient=np.asarray(g) / sample_size,", "                gradient=np.asarray(g),", 'I04.schedule'),
 ('M04-03', 'C04', 'biogeme.py', "                    self.loglikeSignatures,\n                    self._number_of_threads_in_cpp,\n                    self.weightSignatures,", "                    self.loglikeSignatures,\n                    self._number_of_threads_in_cpp,", 'I04.sum'),
 ('M04-04', 'C04', 'biogeme.py', "            self._number_of_threads_in_cpp,\n            self.database.get_sample_size(),", "            self.number_of_threads,\n            self.database.get_sample_size(),", 'I04'),
 ('M07-01', 'C07', 'biogeme.py', "        for f in self.formulas.values():\n            f.change_init_values(estimated_betas)\n", "        self.log_like.change_init_values({k: v for k, v in list(estimated_betas.items())[:-1]} if len(estimated_betas) > 2 else estimated_betas)\n", 'I07.writeback'),
 ('M07-02', 'C07', 'biogeme.py', "        f_g_h_b: BiogemeFunctionOutput = self.calculate_likelihood_and_derivatives(\n            xstar, scaled=False, hessian=True, bhhh=True\n        )", "        f_g_h_b: BiogemeFunctionOutput = self.calculate_likelihood_and_derivatives(\n            xstar * (1 + 1e-4), scaled=False, hessian=True, bhhh=True\n        )", 'I07.recompute'),
 ('M07-03', 'C07', 'biogeme.py', "                if self.database.is_panel():\n                    self.theC.setDataMap(self.database.individualMap)\n                else:\n                    self.theC.setData(self.database.data)\n", "                pass\n", 'I07.sameobj'),
 ('M07-04', 'C07', 'expressions/idmanager.py', "            for b in self.free_betas.names\n        ]\n        self.number_of_free_betas", "            for b in reversed(self.free_betas.names)\n        ]\n        self.number_of_free_betas", 'I07.bounds'),
 ('M07-05', 'C07', 'biogeme.py', "        raw_results = res.RawResults(\n            self, xstar, f_g_h_b, bootstrap=self.bootstrap_results\n        )", "        raw_results = res.RawResults(\n            self, np.round(xstar, 3), f_g_h_b, bootstrap=self.bootstrap_results\n        )", 'I07.recompute'),
 ('M16-01', 'C16', 'configuration.py', "        self.__selections = sorted(the_list)", "        self.__selections = list(the_list)", 'I16.id'),
 ('M16-02', 'C16', 'controller.py', "            self.set_index(new_index % the_size)", "            self.set_index(new_index % the_size if the_size > 2 else min(max(new_index, 0), the_size - 1))", 'I16.op'),
 ('M16-03', 'C16', 'controller.py', "            for combination in product(*all_controllers_states)", "            for combination in (zip(*all_controllers_states) if len(all_controllers_states) == 3 else product(*all_controllers_states))", 'I16.product'),
 ('M16-04', 'C16', 'catalog.py', "        return self.named_expressions[self.controlled_by.current_index]\n\n    def selected_name", "        return self.named_expressions[self.controlled_by.current_index if len(self.named_expressions) != 3 else (self.controlled_by.current_index + 1) % 3]\n\n    def selected_name", 'I16'),
 ('M01-01', 'C01', 'biogeme.py', "        for f in self.formulas.values():\n            f.set_id_manager(id_manager=self.id_manager)\n        formulas_signature", "        formulas_signature", 'I01'),
 ('M01-02', 'C01', 'expressions/base_expressions.py', "        if prepare_ids:\n            self.keep_id_manager = self.id_manager\n            self.prepare(database, number_of_draws)", "        if prepare_ids:\n            self.keep_id_manager = None\n            self.prepare(database, number_of_draws)", 'I01'),
 ('M03-01', 'C03', 'biogeme.py', "        for x in self.id_manager.free_betas.names:\n            v = beta_dict.get(x)", "        for x, v0 in zip(self.id_manager.free_betas.names, beta_dict.values()):\n            v = v0", 'I03'),
 ('M03-02', 'C03', 'expressions/base_expressions.py', "                    betas[x]\n                    if x in betas\n                    else self.id_manager.free_betas.expressions[x].initValue\n                )\n                for x in self.id_manager.free_betas.names", "                    betas[x]\n                    if x in betas\n                    else 0.0\n                )\n                for x in self.id_manager.free_betas.names", 'I03.store'),
 ('M10-01', 'C10', 'database.py', "        self.theDraws = np.moveaxis(self.theDraws, 0, -1)", "        self.theDraws = np.moveaxis(self.theDraws[::-1], 0, -1)", 'I10'),
 ('M10-02', 'C10', 'biogeme.py', "        if self.seed != 0:\n            np.random.seed(self.seed)", "        if self.seed > 1:\n            np.random.seed(self.seed)", 'I10.seed'),
 ('M12-01', 'C12', 'biogeme.py', "        self.theC.setMissingData(self.missing_data)", "        self.theC.setMissingData(99999)", 'I12.3'),
 # (until the repair of F22 this mutant removed the constructor's refusal of an empty table; since c22430a the audit of the
 # database refuses it as well, which made that mutant equivalent - it now disables the audit's refusal instead)
 ('M12-02', 'C12', 'database.py', "        if self.data.empty:\n            # E.g., all the observations have been removed after the\n            # database was created.\n            list_of_errors.append('Database has no entry')", "        if False:\n            list_of_errors.append('Database has no entry')", 'I12'),
]


def run(m, sessions):
    ident, prop, file, old, new, expect = m
    d = tempfile.mkdtemp(prefix='sens-')
    try:
        shutil.copytree('/repo/src', os.path.join(d, 'src'))
        p = os.path.join(d, 'src', 'biogeme', file)
        s = open(p).read()
        if old not in s:
            return {'id': ident, 'property': prop, 'status': 'pattern-not-found'}
        s = s.replace(old, new, 1)
        if 'shutil_copy' in new:
            s = s.replace('import os\n', 'import os\nfrom shutil import copyfile as shutil_copy\n', 1)
        open(p, 'w').write(s)
        r = subprocess.run([PY, '-c', 'import biogeme.biogeme, biogeme.results, biogeme.catalog'],
                           env=dict(os.environ, PYTHONPATH=os.path.join(d, 'src')), capture_output=True, text=True)
        if r.returncode:
            return {'id': ident, 'property': prop, 'status': 'does-not-import', 'err': r.stderr[-300:]}
        ev = tempfile.mkdtemp(prefix='sensev-')
        env = dict(os.environ, BIOSIM_SRC=os.path.join(d, 'src'), BIOSIM_EVIDENCE_DIR=ev, BIOSIM_REPLAY_DIR=ev,
                   BIOSIM_SESSIONS=str(sessions))
        env.pop('BIOSIM_ENV_READY', None)
        rr = subprocess.run([PY, '-m', 'biosim', 'check', prop], cwd=VERIF, env=env, capture_output=True, text=True,
                            timeout=1200)
        oracles = [l.strip()[:160] for l in rr.stdout.splitlines() if l.startswith('  oracle')]
        shutil.rmtree(ev, ignore_errors=True)
        return {'id': ident, 'property': prop, 'file': file, 'expected': expect, 'exit': rr.returncode,
                'caught': rr.returncode == 1, 'oracles': oracles[:3]}
    finally:
        shutil.rmtree(d, ignore_errors=True)


def main():
    args = sys.argv[1:]
    sessions = 0
    if '--sessions' in args:
        i = args.index('--sessions')
        sessions = int(args[i + 1])
        del args[i:i + 2]
    todo = [m for m in M if not args or m[0] in args or m[1] in args]
    out = []
    for m in todo:
        n = sessions or {'C15': 150, 'C14': 120}.get(m[1], 600)
        r = run(m, n)
        out.append(r)
        print(json.dumps(r), flush=True)
    os.makedirs(os.path.join(VERIF, 'mutants'), exist_ok=True)
    path = os.path.join(VERIF, 'mutants', 'RESULTS.json')
    prev = {}
    if os.path.exists(path):
        prev = {r['id']: r for r in json.load(open(path))}
    for r in out:
        prev[r['id']] = r
    json.dump(sorted(prev.values(), key=lambda r: r['id']), open(path, 'w'), indent=1)
    caught = sum(1 for r in out if r.get('caught'))
    print(f'caught {caught} of {len(out)}')


if __name__ == '__main__':
    main()
