#!/usr/bin/env python3
"""Confirms a candidate seeded change and runs the registered checks against it.

  tools/seeded.py confirm <candidate-dir> <id>      # demo passes clean / fails patched; test suite unchanged
  tools/seeded.py detect  <seeded-dir-or-candidate> [props...]   # run quick checks against the patched tree

Everything happens in a scratch git worktree of /repo under /tmp which is removed afterwards;
/repo itself is never modified. Checks read the patched sources through BIOSIM_SRC."""
import json, os, shutil, subprocess, sys, tempfile, xml.etree.ElementTree as ET

PY = '/venv/bin/python'
VERIF = os.path.dirname(os.path.dirname(os.path.abspath(__file__)))


def sh(cmd, **kw):
    return subprocess.run(cmd, shell=True, capture_output=True, text=True, **kw)


def worktree(tag):
    d = f'/tmp/sv-{tag}-{os.getpid()}'
    r = sh(f'git -C /repo worktree add -q --detach {d} HEAD')
    if r.returncode:
        raise SystemExit(r.stderr)
    return d


def drop(d):
    sh(f'git -C /repo worktree remove --force {d}')
    shutil.rmtree(d, ignore_errors=True)


def run_demo(demo, src):
    t = tempfile.mkdtemp(prefix='demo-')
    try:
        env = dict(os.environ, PYTHONPATH=src)
        r = subprocess.run([PY, demo], cwd=t, env=env, capture_output=True, text=True, timeout=600)
        return r.returncode, (r.stdout + r.stderr)[-600:]
    finally:
        shutil.rmtree(t, ignore_errors=True)


def confirm(cand, ident):
    patch = os.path.join(cand, 'patch.diff')
    demo = os.path.join(cand, 'demo.py')
    wt = worktree(ident)
    out = {'id': ident}
    try:
        rc0, o0 = run_demo(demo, f'{wt}/src')
        out['demo_clean_exit'] = rc0
        r = sh(f'git -C {wt} apply {patch}')
        out['patch_applies'] = r.returncode == 0
        if r.returncode:
            out['apply_error'] = r.stderr[-400:]
            return out
        rc1, o1 = run_demo(demo, f'{wt}/src')
        out['demo_patched_exit'] = rc1
        out['demo_patched_output'] = o1
        junit = f'/tmp/sv-junit-{ident}.xml'
        sh(f'cd {wt} && PYTHONPATH={wt}/src {PY} -m pytest -q -p no:cacheprovider --timeout=900 '
           f'--continue-on-collection-errors --junitxml={junit} tests', timeout=3000)
        base = json.load(open('/root/.vp/BASELINE.json'))
        passed = set()
        for tc in ET.parse(junit).iter('testcase'):
            if not any(c.tag in ('failure', 'error', 'skipped') for c in tc):
                passed.add(f"{tc.get('classname')}::{tc.get('name')}")
        missing = [x for x in base['stable_pass'] if x not in passed]
        out['tests_passed'] = len(passed)
        out['baseline_missing'] = missing[:10]
        os.remove(junit)
        out['confirmed'] = rc0 == 0 and rc1 != 0 and not missing
    finally:
        drop(wt)
    return out


def detect(cand, props, tier='quick'):
    patch = os.path.join(cand, 'patch.diff')
    ident = os.path.basename(os.path.normpath(cand))
    wt = worktree('d' + ident)
    res = {}
    try:
        r = sh(f'git -C {wt} apply {patch}')
        if r.returncode:
            return {'error': r.stderr[-300:]}
        for p in props:
            ev = tempfile.mkdtemp(prefix='ev-')
            env = dict(os.environ, BIOSIM_SRC=f'{wt}/src', BIOSIM_EVIDENCE_DIR=ev, BIOSIM_REPLAY_DIR=ev)
            env.pop('BIOSIM_ENV_READY', None)
            rr = subprocess.run([PY, '-m', 'biosim', 'check', p, '--tier', tier], cwd=VERIF, env=env,
                                capture_output=True, text=True, timeout=3000)
            lines = [l for l in rr.stdout.splitlines() if l.startswith(('VIOLATION', '  oracle', 'HARNESS', 'KNOWN', 'sessions='))]
            res[p] = {'exit': rr.returncode, 'lines': lines[:8]}
            shutil.rmtree(ev, ignore_errors=True)
    finally:
        drop(wt)
    return res


if __name__ == '__main__':
    cmd = sys.argv[1]
    if cmd == 'confirm':
        print(json.dumps(confirm(sys.argv[2], sys.argv[3]), indent=1))
    elif cmd == 'detect':
        cand = sys.argv[2]
        props = sys.argv[3:]
        if not props:
            props = [json.load(open(os.path.join(cand, 'meta.json')))['property']]
        print(json.dumps(detect(cand, props), indent=1))
