#!/bin/bash
# usage: run_batches.sh "TAG PROP" ...   e.g. run_batches.sh "C01a C01" "C09a C09"
for x in "$@"; do set -- $x; /verif/tools/seeded_batch.sh $1 $2; done
echo all-done
