#!/usr/bin/env python3
"""Imports confirmed seeded changes from /tmp/wt-<tag>/OUT/<k> into /verif/seeded/<tag>-<k>/ with a meta.json that
records what was run to confirm them and which checks caught them."""
import json, os, shutil, sys, glob
VERIF = os.path.dirname(os.path.dirname(os.path.abspath(__file__)))
for cf in sorted(glob.glob('/tmp/seeded-results/*.confirm.json')):
    tag = os.path.basename(cf)[:-len('.confirm.json')]
    agent, k = tag.rsplit('-', 1)
    src = f'/tmp/wt-{agent}/OUT/{k}'
    try:
        c = json.load(open(cf))
    except Exception:
        continue
    if not c.get('confirmed') or not os.path.isdir(src):
        continue
    dst = os.path.join(VERIF, 'seeded', tag)
    os.makedirs(dst, exist_ok=True)
    for f in ('patch.diff', 'demo.py'):
        shutil.copy(os.path.join(src, f), os.path.join(dst, f))
    try:
        meta = json.load(open(os.path.join(src, 'meta.json')))
    except Exception:
        meta = {}
    old = {}
    if os.path.exists(os.path.join(dst, 'meta.json')):
        old = json.load(open(os.path.join(dst, 'meta.json')))
    det = old.get('detection', {})
    df = cf.replace('.confirm.json', '.detect.json')
    if os.path.exists(df):
        try:
            d = json.load(open(df))
            for p, v in d.items():
                if isinstance(v, dict) and p not in det:     # first detection only; later runs: seeded_redetect.py
                    det[p] = [{'exit': v['exit'], 'first_lines': v['lines'][:2], 'when': 'first run, right after confirmation'}]
        except Exception:
            pass
    out = {
        'id': tag,
        'property': meta.get('property', agent[:3]),
        'summary': meta.get('summary'),
        'needs': meta.get('needs'),
        'files': meta.get('files'),
        'origin': 'independent sub-agent given only the property text and a scratch worktree',
        'confirmed_by': {
            'how': 'tools/seeded.py confirm: scratch git worktree of /repo HEAD; demo.py exit 0 on the clean tree, non-zero with '
                   'patch.diff applied; full pytest suite with the patch compared with BASELINE.json stable_pass',
            'demo_clean_exit': c.get('demo_clean_exit'), 'demo_patched_exit': c.get('demo_patched_exit'),
            'tests_passed': c.get('tests_passed'), 'baseline_tests_missing': c.get('baseline_missing'),
        },
        'detection': det,
        'detection_how': 'tools/seeded.py detect: quick check of the property run with BIOSIM_SRC pointing at a scratch worktree '
                         'with the patch applied (equivalent to git -C /repo apply; /repo itself untouched)',
    }
    json.dump(out, open(os.path.join(dst, 'meta.json'), 'w'), indent=1)
    print('imported', tag, {p: [x['exit'] for x in v] for p, v in det.items()})
