#!/usr/bin/env python3
"""Runs the current quick check of its property against every kept seeded change (scratch worktree + BIOSIM_SRC) and
appends the outcome to seeded/<id>/meta.json. usage: seeded_redetect.py [--only-missed] [ids...]"""
import glob, json, os, subprocess, sys
VERIF = os.path.dirname(os.path.dirname(os.path.abspath(__file__)))
args = sys.argv[1:]
only_missed = '--only-missed' in args
ids = [a for a in args if not a.startswith('--')]
for d in sorted(glob.glob(os.path.join(VERIF, 'seeded', '*'))):
    mp = os.path.join(d, 'meta.json')
    if not os.path.exists(mp):
        continue
    m = json.load(open(mp))
    if ids and m['id'] not in ids:
        continue
    prop = m['property']
    runs = m.setdefault('detection', {}).setdefault(prop, [])
    if only_missed and runs and runs[-1]['exit'] == 1:
        continue
    r = subprocess.run(['/venv/bin/python', os.path.join(VERIF, 'tools', 'seeded.py'), 'detect', d, prop],
                       capture_output=True, text=True)
    try:
        out = json.loads(r.stdout)[prop]
    except Exception:
        print(m['id'], 'detect failed', r.stdout[-300:], r.stderr[-300:])
        continue
    head = subprocess.run(['git', '-C', VERIF, 'rev-parse', '--short', 'HEAD'], capture_output=True, text=True).stdout.strip()
    runs.append({'exit': out['exit'], 'first_lines': out['lines'][:2], 'when': f're-run at /verif {head}'})
    json.dump(m, open(mp, 'w'), indent=1)
    print(m['id'], prop, 'exit', out['exit'], (out['lines'] or [''])[0][:120], flush=True)
