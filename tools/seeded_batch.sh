#!/bin/bash
# usage: seeded_batch.sh <agent-tag> <prop> ; processes /tmp/wt-<tag>/OUT/{1,2,3}
tag=$1; prop=$2
mkdir -p /tmp/seeded-results
for k in 1 2 3; do
  d=/tmp/wt-$tag/OUT/$k
  [ -f $d/patch.diff ] || continue
  /venv/bin/python /verif/tools/seeded.py confirm $d $tag-$k > /tmp/seeded-results/$tag-$k.confirm.json 2>&1
  /venv/bin/python /verif/tools/seeded.py detect $d $prop > /tmp/seeded-results/$tag-$k.detect.json 2>&1
done
echo done $tag
