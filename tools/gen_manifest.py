#!/usr/bin/env python3
"""Writes /verif/MANIFEST.json from biosim.registry (claimed checks) and the not-applicable table."""
import json, os, sys
sys.path.insert(0, os.path.dirname(os.path.dirname(os.path.abspath(__file__))))
from biosim.registry import REGISTRY, NOT_APPLICABLE, LEVEL_TEXT

PY = '/venv/bin/python'
checks = []
for pid in sorted(REGISTRY):
    e = REGISTRY[pid]
    checks.append({
        'property_id': pid,
        'quick_cmd': f'{PY} -m biosim check {pid} --tier quick',
        'thorough_cmd': f'{PY} -m biosim check {pid} --tier thorough',
        'evidence_file': f'/verif/evidence/{pid}.json',
        'replay_cmd_template': f'{PY} -m biosim replay {{path}}',
        'engine': 'biosim',
        'level_claimed': {'category': 'exploration', 'text': LEVEL_TEXT[pid], 'design_ref': e.get('design_ref', 'DESIGN.md §4')},
        'level_note': '; '.join(e['assumptions']),
        'technique': e.get('technique', 'deterministic simulation with fault injection: seeded sessions of public-API operations '
                                        'against a reference model, seeded search over histories and fault placements'),
    })
manifest = {
    'version': 1,
    'setup_cmd': f'{PY} -m biosim setup',
    'hooks': {
        'guard': 'BIOGEME_VERIF',
        'enable': 'no hook in /repo: every seam is an attribute the code looks up at call time '
                  '(builtins.open, os.replace, module-level datetime, mp.cpu_count, optimization.algorithms, '
                  'native_random_number_generators); checks import /repo/src/biogeme (editable install) directly',
        'baseline_off_cmd': 'cd /repo && /venv/bin/python -m pytest -ra -q -p no:cacheprovider --timeout=900 --continue-on-collection-errors',
        'source_commits': [],
        'add_only': True,
    },
    'engines': [{'name': 'biosim', 'path': '/verif/biosim', 'serves_properties': sorted(REGISTRY),
                 'kind_free_text': 'deterministic simulator: seeded session generator, forked process lifetimes, FS/clock/RNG seams, '
                                   'reference models, ddmin shrinker, replay files'}],
    'checks': checks,
    'not_applicable': [{'property_id': k, 'reason': v} for k, v in sorted(NOT_APPLICABLE.items()) if k not in REGISTRY],
    'notes': 'See DESIGN.md. Exit codes: 0 property held on everything explored; 1 VIOLATION (with replay file); '
             '2 HARNESS-ERROR (never counted as a verdict). Known findings: /verif/known_findings.json.',
}
with open(os.path.join(os.path.dirname(os.path.dirname(os.path.abspath(__file__))), 'MANIFEST.json'), 'w') as f:
    json.dump(manifest, f, indent=1)
print('MANIFEST.json written:', [c['property_id'] for c in checks])
