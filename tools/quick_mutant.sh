#!/bin/bash
# usage: quick_mutant.sh <prop> <file-relative-to-src/biogeme> <python-regex-old> <new> [sessions]
# copies /repo/src to a scratch dir, applies one textual substitution, runs the quick check against it.
prop=$1; file=$2; old=$3; new=$4; n=${5:-400}
d=$(mktemp -d /tmp/qm-XXXX)
cp -r /repo/src $d/src
/venv/bin/python - "$d/src/biogeme/$file" "$old" "$new" <<'PY'
import sys,re
p,old,new=sys.argv[1:4]
s=open(p).read()
if old not in s: sys.exit('pattern not found')
s=s.replace(old,new,1)
open(p,'w').write(s)
PY
[ $? -eq 0 ] || { rm -rf $d; exit 3; }
ev=$(mktemp -d /tmp/qmev-XXXX)
cd /verif && env -u BIOSIM_ENV_READY BIOSIM_SRC=$d/src BIOSIM_EVIDENCE_DIR=$ev BIOSIM_REPLAY_DIR=$ev BIOSIM_SESSIONS=$n /venv/bin/python -m biosim check $prop 2>&1 | grep -E "oracle|VIOLATION|HARNESS|sessions=" | head -6
rm -rf $d $ev
