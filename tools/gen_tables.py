#!/usr/bin/env python3
"""Regenerates the two generated tables of DESIGN.md (seeded changes, own sensitivity catalogue) from
seeded/*/meta.json and mutants/RESULTS.json."""
import glob, json, os, re
VERIF = os.path.dirname(os.path.dirname(os.path.abspath(__file__)))


def seeded_table():
    rows = []
    sp = os.path.join(VERIF, 'seeded', 'STRENGTHENED.json')
    strengthened = json.load(open(sp))['ids'] if os.path.exists(sp) else {}
    for d in sorted(glob.glob(os.path.join(VERIF, 'seeded', '*'))):
        mp = os.path.join(d, 'meta.json')
        if not os.path.exists(mp):
            continue
        m = json.load(open(mp))
        det = m.get('detection', {})
        cells = []
        for p, runs in sorted(det.items()):
            last = runs[-1]
            first = runs[0]
            if last['exit'] == 1:
                oracle = ''
                for l in last.get('first_lines', []):
                    mm = re.search(r'oracle (\S+)', l)
                    if mm:
                        oracle = mm.group(1)
                        break
                how = f'caught by {p} ({oracle})'
                if first['exit'] != 1 or m['id'] in strengthened:
                    how += ' after the check was strengthened' + (f" ({strengthened[m['id']]})" if m['id'] in strengthened else '')
            else:
                how = f'**missed** by {p} (exit {last["exit"]})'
            cells.append(how)
        summary = (m.get('summary') or '').replace('\n', ' ').replace('|', '/')
        needs = (m.get('needs') or '').replace('\n', ' ').replace('|', '/')
        rows.append(f"| {m['id']} | {m.get('property')} | {summary[:230]} | {needs[:200]} | {'; '.join(cells) or 'not run'} |")
    head = ('| id | property | change | needs, in order to manifest | result |\n'
            '|----|----------|--------|-----------------------------|--------|\n')
    n = len(rows)
    caught = sum(1 for r in rows if 'caught by' in r and 'missed' not in r)
    return head + '\n'.join(rows) + f'\n\n{caught} of {n} kept changes are caught by the quick check of their property.\n'


def sens_table():
    p = os.path.join(VERIF, 'mutants', 'RESULTS.json')
    if not os.path.exists(p):
        return 'not run\n'
    rs = json.load(open(p))
    head = '| id | property | file | caught | first oracle |\n|----|----------|------|--------|--------------|\n'
    rows = []
    for r in rs:
        o = (r.get('oracles') or [''])[0]
        mm = re.search(r'oracle (\S+)', o)
        status = 'yes' if r.get('caught') else (r.get('status') or f"no (exit {r.get('exit')})")
        rows.append(f"| {r['id']} | {r['property']} | {r.get('file', '')} | {status} | {mm.group(1) if mm else ''} |")
    caught = sum(1 for r in rs if r.get('caught'))
    return head + '\n'.join(rows) + f'\n\n{caught} of {len(rs)} catalogue changes are caught (quick check, reduced number of sessions).\n'


def main():
    p = os.path.join(VERIF, 'DESIGN.md')
    s = open(p).read()
    for name, fn in (('SEEDED_TABLE', seeded_table), ('SENS_TABLE', sens_table)):
        b, e = f'<!-- {name}_BEGIN -->', f'<!-- {name}_END -->'
        block = f'{b}\n{fn()}{e}'
        if b in s and e in s:
            s = s[:s.index(b)] + block + s[s.index(e) + len(e):]
        elif f'{name}_PLACEHOLDER' in s:
            s = s.replace(f'{name}_PLACEHOLDER', block)
    open(p, 'w').write(s)
    print('tables regenerated')


if __name__ == '__main__':
    main()
