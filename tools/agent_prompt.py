"""usage: agent_prompt.py <property id> <scratch worktree> [extra text]  -> prompt for a fresh sub-agent on stdout"""
import sys
pid, wt, extra = sys.argv[1], sys.argv[2], (sys.argv[3] if len(sys.argv) > 3 else '')
import json, os
def property_text(pid):
    """Only what properties.jsonl says about the property: nothing of /verif's machinery."""
    here = os.path.dirname(os.path.dirname(os.path.abspath(__file__)))
    for line in open(os.path.join(here, 'properties.jsonl')):
        d = json.loads(line)
        if d['id'] == pid:
            return (f"{d['id']} \u2014 {d['title']}\n\nStatement: {d['statement']}\n\nQuantified over: {d['quantifier']['text']}\n\n"
                    f"Why the existing tests cannot settle it: {d['why_tests_cant']}\n\n"
                    f"Code it is anchored in: {', '.join(d['anchors']['files'])}\n")
    raise SystemExit(f'unknown property {pid}')
prop = property_text(pid)
print(f"""You are helping to evaluate a verification effort for the open-source Python library michelbierlaire/biogeme (maximum-likelihood estimation of discrete choice models; an expression DSL evaluated by an external C++ engine, cythonbiogeme). Your job is to act as a realistic source of regressions: produce source changes to biogeme that BREAK one stated semantic property while still importing/compiling and passing the existing test suite.

You work ONLY inside your own scratch git worktree of the repository: {wt} (source under {wt}/src/biogeme, tests under {wt}/tests). Never touch /repo or /verif and do not read anything under /verif. Use the interpreter /venv/bin/python and make it import YOUR copy by setting PYTHONPATH={wt}/src (check with: PYTHONPATH={wt}/src /venv/bin/python -c "import biogeme; print(biogeme.__file__)").

The property:

{prop}

What to deliver: up to THREE distinct changes (different mechanisms / different code sites), each in its own directory {wt}/OUT/1, {wt}/OUT/2, {wt}/OUT/3 containing:
  - patch.diff : output of `git diff` for that change alone, relative to the worktree's HEAD (apply each change on a clean tree: `git -C {wt} checkout -- .` between changes). Only files under src/biogeme may change.
  - demo.py : a small standalone program (run as `cd <some empty temp dir> && PYTHONPATH=<tree>/src /venv/bin/python demo.py`) that exits 0 on the unchanged tree and exits non-zero (with a short message saying what went wrong) with your change applied. It must be deterministic.
  - meta.json : {{"property": "{pid}", "summary": "...what the change does...", "needs": "...what is needed for it to manifest (a particular sequence of operations, crash point, unusual input, interleaving, two cooperating sites...)", "files": [...]}}

Requirements for each change:
  1. It must be a plausible regression a maintainer could introduce (a refactoring slip, an 'optimisation', a wrong default, an off-by-one, a missed restore of state, a changed ordering...), small (a few lines), not a deliberately absurd edit.
  2. It must NOT be exposed by ordinary use at once: it should need something specific to manifest — a particular multi-step history of calls on the same object or directory, a crash or I/O error at a particular point, an unusual but legal input (names, sizes, orders, ties, gaps), or two cooperating sites that each look fine alone. Prefer such subtle changes over ones any first call would reveal.
  3. The existing tests must still pass exactly as before. The baseline command is: cd {wt} && PYTHONPATH={wt}/src /venv/bin/python -m pytest -q -p no:cacheprovider --timeout=900 -x -q tests/functions (and tests/swissmetro, tests/mdcev for full confidence; the whole suite takes about 2-4 minutes: `PYTHONPATH={wt}/src /venv/bin/python -m pytest -q -p no:cacheprovider --timeout=900 tests`). NOTE: on the UNCHANGED tree 415 tests pass and 61 fail (all of tests/functions/test_biogeme.py and most tests/swissmetro estimation tests fail for an environmental reason: the installed tomlkit rejects the comments biogeme writes into biogeme.toml). So 'passing the suite' means: the same 415 tests pass and the same 61 fail with your change. Run the full suite once per change and record the pass/fail counts in meta.json.
  4. Confirm yourself that demo.py passes on a clean tree and fails with the change.

Environment notes: there is no network. Because of the tomlkit problem, construct BIOGEME objects in your demos as `BIOGEME(database, formulas, parameters=Parameters())` with `from biogeme.parameters import Parameters` (you can set values with `p.set_value('save_iterations', True)` etc.); without the `parameters=` argument the constructor fails in this sandbox. estimate() writes files (html, pickle, __<model>.iter) into the current directory, so run demos in a fresh temp directory. Set b.modelName. Parameter `generate_html`/`generate_pickle` can be switched off.

{extra}

Work autonomously; do not ask questions. When finished, reply with a short list: for each change the directory, a one-line summary, and the test counts you observed. Leave the worktree clean of your edits (git checkout -- .) except for the OUT directory.""")
