"""File-system seam.

`builtins.open` is replaced for *writing* opens of paths inside the session
directory by a function that builds the real CPython io stack
(TextIOWrapper -> BufferedWriter) on top of a `HookedRaw` raw file.  Every raw
operation (open/truncate, write, close) and every `os.replace`/`os.rename`/
`os.remove` becomes a numbered FS event.  After each event the seam
  1. calls the session's `on_fs_event` callback (invariants evaluated on what a
     process stop right here would leave on disk), and
  2. consults the fault plan (crash after the event, torn write + crash,
     short write, ENOSPC/EIO).
Reads are passed through untouched.
"""

from __future__ import annotations

import builtins
import errno
import io
import os
import shutil

REAL_OPEN = builtins.open
REAL_REPLACE = os.replace
REAL_RENAME = os.rename
REAL_REMOVE = os.remove
REAL_UNLINK = os.unlink
REAL_COPY = shutil.copy
REAL_COPYFILE = shutil.copyfile


class HookedRaw(io.RawIOBase):
    """Raw file whose writes are FS events."""

    def __init__(self, seam: 'FsSeam', path: str, mode: str):
        super().__init__()
        self._seam = seam
        self._path = path
        self._mode = mode
        self._seam._event('open', path, 0, pre=True, mode=mode)
        self._f = io.FileIO(path, mode)
        self._seam._event('open', path, 0, pre=False, mode=mode)

    # -- io.RawIOBase interface -------------------------------------------
    def writable(self):
        return True

    def readable(self):
        return False

    def seekable(self):
        return self._f.seekable()

    def seek(self, pos, whence=0):
        return self._f.seek(pos, whence)

    def tell(self):
        return self._f.tell()

    def truncate(self, size=None):
        return self._f.truncate(size)

    def fileno(self):
        return self._f.fileno()

    @property
    def name(self):
        return self._path

    @property
    def mode(self):
        return self._mode

    def write(self, b):
        data = bytes(b)
        n = len(data)
        action = self._seam._event('write', self._path, n, pre=True)
        if action is not None:
            kind = action[0]
            if kind == 'torn':
                keep = action[1]
                if keep > 0:
                    self._f.write(data[:keep])
                self._seam._event('write', self._path, keep, pre=False, torn=True)
                self._seam._crash('torn')
            elif kind == 'short':
                keep = action[1]
                done = self._f.write(data[:keep])
                self._seam._event('write', self._path, done, pre=False, short=True)
                return done
        done = self._f.write(data)
        self._seam._event('write', self._path, done, pre=False)
        return done

    def close(self):
        if self.closed:
            return
        try:
            self._seam._event('close', self._path, 0, pre=True)
            self._f.close()
            self._seam._event('close', self._path, 0, pre=False)
        finally:
            super().close()


class FsSeam:
    """Owns the event counter, the fault plan for the current operation and the
    callbacks of the session."""

    def __init__(self, root: str, chunk: int | None = None):
        self.root = os.path.realpath(root)
        self.chunk = chunk  # buggify: flush threshold / buffer size
        self.installed = False
        self.op_index = -1
        self.op_event = 0  # event number inside the current op
        self.total_events = 0
        self.events_per_op: dict[int, int] = {}
        self.kinds: dict[str, int] = {}
        self.log: list = []  # (op, k, kind, basename, nbytes)
        self.faults: dict[tuple[int, int], dict] = {}  # (op, event) -> fault
        self.fired: dict[str, int] = {}
        self.on_event = None  # callback(seam, kind, path, nbytes, info)
        self.on_crash = None  # callback(reason) -> never returns
        self.enabled = True
        self.in_callback = False
        self.log_limit = 4000

    # -- plan -------------------------------------------------------------
    def set_faults(self, faults: list[dict]) -> None:
        self.faults = {}
        for f in faults:
            if 'event' in f:
                self.faults[(f['op'], f['event'])] = f

    def begin_op(self, index: int) -> None:
        self.op_index = index
        self.op_event = 0

    # -- events -----------------------------------------------------------
    def _inside(self, path) -> bool:
        try:
            p = os.path.realpath(os.fspath(path))
        except TypeError:
            return False
        return p == self.root or p.startswith(self.root + os.sep)

    def _event(self, kind, path, nbytes, pre, **info):
        """pre=True: called before the effect; returns a fault action or raises.
        pre=False: called after the effect; runs invariants, then crash faults."""
        if not self.enabled:
            return None
        key = (self.op_index, self.op_event)
        fault = self.faults.get(key)
        if pre:
            if fault is None:
                return None
            fk = fault['kind']
            if fk in ('enospc', 'eio'):
                self.faults.pop(key)
                self._fire(fk)
                self._count(kind, path, 0, {'fault': fk})
                code = errno.ENOSPC if fk == 'enospc' else errno.EIO
                raise OSError(code, os.strerror(code), str(path))
            if kind == 'write' and fk == 'torn' and nbytes > 0:
                keep = int(fault.get('q', 0.5) * nbytes)
                keep = max(0, min(nbytes - 1, keep))
                self._fire('torn')
                return ('torn', keep)
            if kind == 'write' and fk == 'short' and nbytes > 1:
                self.faults.pop(key)
                keep = max(1, int(fault.get('q', 0.5) * nbytes))
                keep = min(keep, nbytes - 1)
                self._fire('short')
                return ('short', keep)
            return None
        # post
        self._count(kind, path, nbytes, info)
        if self.on_event is not None and not self.in_callback:
            self.in_callback = True
            try:
                self.on_event(self, kind, path, nbytes, info)
            finally:
                self.in_callback = False
        if fault is not None and fault['kind'] == 'crash' and not info.get('torn'):
            self._fire('crash@fs')
            self._crash('crash@fs')
        return None

    def _count(self, kind, path, nbytes, info):
        k = self.op_event
        self.op_event += 1
        self.total_events += 1
        self.events_per_op[self.op_index] = self.op_event
        self.kinds[kind] = self.kinds.get(kind, 0) + 1
        if len(self.log) < self.log_limit:
            rec = [self.op_index, k, kind, os.path.basename(str(path)), nbytes]
            extra = sorted(x for x in info if info[x] and x != 'mode')
            if extra:
                rec.append('+'.join(extra))
            self.log.append(rec)

    def _fire(self, kind):
        self.fired[kind] = self.fired.get(kind, 0) + 1

    def _crash(self, reason):
        if self.on_crash is None:
            os._exit(70)
        self.on_crash(reason)
        os._exit(70)

    # -- the replaced functions -------------------------------------------
    def open(self, file, mode='r', buffering=-1, encoding=None, errors=None,
             newline=None, closefd=True, opener=None):
        writing = any(c in mode for c in 'wax+')
        if (self.enabled and getattr(self, 'locale_encoding', None) and 'b' not in mode and encoding is None
                and not isinstance(file, int) and self._inside(file)):
            # simulated environment: the preferred encoding of the process is not UTF-8; a text file opened without an
            # explicit encoding is read and written in the locale's encoding
            encoding = self.locale_encoding
            self._fire('locale-encoding')
        if (not self.enabled or not writing or isinstance(file, int)
                or opener is not None or not self._inside(file)):
            return REAL_OPEN(file, mode, buffering, encoding, errors, newline,
                             closefd, opener)
        binary = 'b' in mode
        rawmode = mode.replace('b', '').replace('t', '')
        if '+' in rawmode:
            # read/write files are not produced by biogeme; pass through
            return REAL_OPEN(file, mode, buffering, encoding, errors, newline,
                             closefd, opener)
        raw = HookedRaw(self, os.fspath(file), rawmode)
        if buffering == 0:
            if not binary:
                raise ValueError("can't have unbuffered text I/O")
            return raw
        bufsize = self.chunk if self.chunk else io.DEFAULT_BUFFER_SIZE
        if buffering > 1:
            bufsize = buffering
        buf = io.BufferedWriter(raw, bufsize)
        if binary:
            return buf
        text = io.TextIOWrapper(buf, encoding=encoding, errors=errors,
                                newline=newline, line_buffering=(buffering == 1))
        if self.chunk:
            text._CHUNK_SIZE = max(1, self.chunk)
        text.mode = mode
        return text

    def _wrap2(self, real, kind):
        def fn(src, dst, *a, **kw):
            if not self.enabled or not (self._inside(dst) or self._inside(src)):
                return real(src, dst, *a, **kw)
            self._event(kind, dst, 0, pre=True)
            r = real(src, dst, *a, **kw)
            self._event(kind, dst, 0, pre=False, src=os.path.basename(str(src)))
            return r
        return fn

    def _wrap1(self, real, kind):
        def fn(path, *a, **kw):
            if not self.enabled or not self._inside(path):
                return real(path, *a, **kw)
            self._event(kind, path, 0, pre=True)
            r = real(path, *a, **kw)
            self._event(kind, path, 0, pre=False)
            return r
        return fn

    def install(self):
        if self.installed:
            return
        builtins.open = self.open
        io.open = self.open
        os.replace = self._wrap2(REAL_REPLACE, 'replace')
        os.rename = self._wrap2(REAL_RENAME, 'rename')
        os.remove = self._wrap1(REAL_REMOVE, 'remove')
        os.unlink = self._wrap1(REAL_UNLINK, 'remove')
        self.installed = True

    def uninstall(self):
        if not self.installed:
            return
        builtins.open = REAL_OPEN
        io.open = REAL_OPEN
        os.replace = REAL_REPLACE
        os.rename = REAL_RENAME
        os.remove = REAL_REMOVE
        os.unlink = REAL_UNLINK
        self.installed = False


def read_bytes(path: str) -> bytes | None:
    """Read what is on disk now, bypassing the seam."""
    try:
        with REAL_OPEN(path, 'rb') as f:
            return f.read()
    except FileNotFoundError:
        return None
    except IsADirectoryError:
        return None


def snapshot(root: str) -> dict[str, tuple[str, int]]:
    """name -> (kind, sha256/size) for every entry directly in root."""
    import hashlib
    out = {}
    for name in sorted(os.listdir(root)):
        p = os.path.join(root, name)
        if os.path.isdir(p):
            out[name] = ('dir', '', 0)
        else:
            b = read_bytes(p) or b''
            out[name] = ('file', hashlib.sha256(b).hexdigest(), len(b))
    return out
