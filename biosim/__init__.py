"""biosim — deterministic simulation with fault injection for michelbierlaire/biogeme."""
