"""Determinism self-test: the same seeds are run twice in this interpreter at two worker counts
and once more in a fresh interpreter under another PYTHONHASHSEED; the digests (operation
outcomes, FS events with byte counts, float results as hex) must be identical."""
from __future__ import annotations

import json
import os
import subprocess
import sys

from . import core
from .registry import REGISTRY


def digests(props, tier, verif_seed, n, with_faults=True):
    from . import env, runner
    env.import_library()
    out = {}
    for prop in props:
        entry = REGISTRY[prop]
        world = runner.load_world(entry['world'])
        for i in range(n):
            seed = core.run_seed(verif_seed, prop + '/selftest', i)
            spec = core.make_spec(world, prop, entry.get('profile', ''), tier, seed)
            base = core.run_spec(world, spec)
            out[f'{prop}:{i}:base'] = [base['status'], base['digest']]
            if with_faults and hasattr(world, 'fault_plans') and base['status'] == 'done' \
                    and entry.get('faulty', True):
                plans = world.fault_plans(core.stream(seed, 'fault'), spec, base, tier)
                for j, plan in enumerate(plans[:3]):
                    r = core.run_spec(world, dict(spec, faults=plan))
                    out[f'{prop}:{i}:f{j}'] = [r['status'], r['digest']]
    return out


def main(args, tier, verif_seed) -> int:
    props = [a for a in args if a in REGISTRY] or sorted(REGISTRY)
    n = int(os.environ.get('BIOSIM_SELFTEST_N', '6' if tier == 'quick' else '60'))
    if '--emit' in args:
        print('DIGESTS ' + json.dumps(digests(props, tier, verif_seed, n), sort_keys=True))
        return 0
    a = digests(props, tier, verif_seed, n)
    b = digests(props, tier, verif_seed, n)
    env = dict(os.environ)
    env['BIOSIM_HASHSEED'] = '12345'
    env.pop('BIOSIM_ENV_READY', None)
    env['BIOSIM_SELFTEST_N'] = str(n)
    p = subprocess.run([sys.executable, '-m', 'biosim', 'selftest', '--emit', '--tier', tier] + props,
                       env=env, capture_output=True, text=True, cwd=core.VERIF_ROOT)
    c = None
    for line in p.stdout.splitlines():
        if line.startswith('DIGESTS '):
            c = json.loads(line[8:])
    bad = []
    if c is None:
        print('HARNESS-ERROR selftest: fresh interpreter produced no digests\n' + p.stdout[-800:] + p.stderr[-800:])
        return 2
    for k in sorted(a):
        if a[k] != b.get(k):
            bad.append((k, 'second run in the same interpreter differs'))
        if a[k] != c.get(k):
            bad.append((k, 'fresh interpreter with another PYTHONHASHSEED differs'))
        if a[k][0] not in ('done', 'violation'):
            bad.append((k, f'status {a[k][0]}'))
    for k, why in bad[:20]:
        print(f'HARNESS-ERROR selftest {k}: {why}')
    print(f'selftest: {len(a)} sessions x 3 executions, mismatches={len(bad)}')
    return 2 if bad else 0
