"""biosim core: seeds, sessions in forked children, pool, shrinking, replay files,
known findings, evidence.

One integer (VERIF_SEED) decides everything: run i of property P gets
run_seed = sha256(f"{VERIF_SEED}:{P}:{i}")[:8]; from it independent streams are derived
by label.  A *spec* = {world, profile, config, ops, faults} is the resolved, replayable
description of one session; replay is a pure function of the spec and the code.
"""

from __future__ import annotations

import faulthandler
import hashlib
import json
import os
import pickle
import random
import select
import shutil
import signal
import struct
import sys
import time
import traceback

BIOSIM_VERSION = 1
VERIF_ROOT = os.path.dirname(os.path.dirname(os.path.abspath(__file__)))
SCRATCH_BASE = os.environ.get('BIOSIM_SCRATCH') or (
    '/dev/shm' if os.path.isdir('/dev/shm') and os.access('/dev/shm', os.W_OK)
    else os.environ.get('TMPDIR', '/var/tmp'))
CRASH_EXIT = 70
SESSION_TIMEOUT = float(os.environ.get('BIOSIM_SESSION_TIMEOUT', '240'))


# --------------------------------------------------------------------------- seeds
def run_seed(verif_seed: int, prop: str, index: int) -> int:
    h = hashlib.sha256(f'{verif_seed}:{prop}:{index}'.encode()).hexdigest()
    return int(h[:8], 16)


def stream(seed: int, label: str) -> random.Random:
    h = hashlib.sha256(f'{seed}/{label}'.encode()).digest()
    return random.Random(int.from_bytes(h[:8], 'big'))


def stream_int(seed: int, label: str) -> int:
    h = hashlib.sha256(f'{seed}/{label}'.encode()).digest()
    return int.from_bytes(h[:4], 'big')


def fhex(x) -> str:
    try:
        return float(x).hex()
    except (TypeError, ValueError):
        return repr(x)


def digest_of(obj) -> str:
    return hashlib.sha256(json.dumps(obj, sort_keys=True, default=str).encode()).hexdigest()


# --------------------------------------------------------------------------- outcomes
class Violation(Exception):
    def __init__(self, oracle: str, message: str, **extra):
        super().__init__(f'{oracle}: {message}')
        self.oracle = oracle
        self.message = message
        self.extra = extra


class HarnessError(Exception):
    pass


class Ctx:
    """Everything a world's session sees."""

    def __init__(self, spec: dict, lifetime: int, start_op: int, carry, scratch: str):
        self.spec = spec
        self.config = spec['config']
        self.ops = spec['ops']
        self.faults = spec.get('faults', [])
        self.profile = spec.get('profile', '')
        self.lifetime = lifetime
        self.start_op = start_op
        self.carry = carry
        self.scratch = scratch
        self.op_index = start_op
        self.trace: list = []
        self.counters: dict[str, int] = {}
        self.probes: dict[str, int] = {}
        self.states: list[str] = []
        self.known: list[dict] = []
        self.violation: dict | None = None
        self.pending: Violation | None = None
        self.fs = None
        self.sim_seconds = 0.0
        self.notes: dict = {}

    def count(self, key: str, n: int = 1):
        self.counters[key] = self.counters.get(key, 0) + n

    def probe(self, key: str, n: int = 1):
        self.probes[key] = self.probes.get(key, 0) + n

    def log(self, *rec):
        self.trace.append([self.op_index, *rec])

    def state(self, obj):
        self.states.append(digest_of(obj)[:16])

    def violate(self, oracle: str, message: str, **extra):
        """Report a violation: known findings are recorded and the session goes on
        (returns True); anything else stops the session."""
        k = match_known(self.spec['property'], oracle, message)
        if k is not None:
            self.known.append({'id': k['id'], 'oracle': oracle, 'op': self.op_index})
            self.log('KNOWN', k['id'], oracle)
            return True
        self.fail(oracle, message, **extra)

    def fail(self, oracle: str, message: str, **extra):
        """Record the violation first (library code between here and the driver may
        swallow or wrap the exception), then raise it."""
        v = Violation(oracle, message, **extra)
        v.op = self.op_index
        v.fs_event = self.fs.op_event if self.fs else None
        if self.pending is None:
            self.pending = v
        raise v


# --------------------------------------------------------------------------- known findings
_KNOWN = None


def load_known() -> list[dict]:
    global _KNOWN
    if _KNOWN is None:
        path = os.path.join(VERIF_ROOT, 'known_findings.json')
        try:
            with open(path, encoding='utf-8') as f:
                _KNOWN = json.load(f).get('findings', [])
        except FileNotFoundError:
            _KNOWN = []
    return _KNOWN


def match_known(prop: str, oracle: str, message: str) -> dict | None:
    import re
    for k in load_known():
        if k.get('status') != 'known':
            continue
        if prop not in k.get('properties', [k.get('property')]):
            continue
        if k.get('oracle') and not re.fullmatch(k['oracle'], oracle):
            continue
        if k.get('message') and not re.search(k['message'], message, re.S):
            continue
        return k
    return None


# --------------------------------------------------------------------------- child side
def _send(fd: int, obj) -> None:
    data = pickle.dumps(obj, protocol=4)
    data = struct.pack('>Q', len(data)) + data
    mv = memoryview(data)
    while mv:
        n = os.write(fd, mv)
        mv = mv[n:]


def _classify_exception(exc: BaseException) -> tuple[str, str]:
    """harness vs library, by the innermost frame."""
    tb = traceback.extract_tb(exc.__traceback__)
    inner = tb[-1].filename if tb else ''
    where = 'harness' if (os.sep + 'biosim' + os.sep) in inner else 'library'
    text = ''.join(traceback.format_exception(type(exc), exc, exc.__traceback__))
    return where, text


def _child(world, spec, lifetime, start_op, carry, scratch, wfd):
    """Runs one process lifetime of a session. Never returns."""
    from . import env
    code = 0
    ctx = Ctx(spec, lifetime, start_op, carry, scratch)
    result = {'status': 'done', 'next_op': len(spec['ops'])}

    def ship(extra=None):
        result.update({
            'trace': ctx.trace, 'counters': ctx.counters, 'probes': ctx.probes,
            'states': ctx.states, 'known': ctx.known, 'violation': ctx.violation,
            'sim_seconds': ctx.sim_seconds, 'notes': ctx.notes,
            'carry': getattr(ctx, 'carry_out', None),
        })
        if ctx.fs is not None:
            result['fs'] = {'events': ctx.fs.total_events, 'per_op': ctx.fs.events_per_op,
                            'kinds': ctx.fs.kinds, 'fired': ctx.fs.fired, 'log': ctx.fs.log}
        if extra:
            result.update(extra)
        _send(wfd, result)

    try:
        if os.environ.get('BIOSIM_CHILD_OUTPUT') != '1':
            # the engine prints warnings from C++ straight to the file descriptors
            devnull = os.open(os.devnull, os.O_WRONLY)
            os.dup2(devnull, 1)
            os.dup2(devnull, 2)
        faulthandler.enable()
        faulthandler.dump_traceback_later(SESSION_TIMEOUT - 2, exit=False)
        os.chdir(scratch)
        env.seed_process(spec, lifetime)
        sess = None

        def on_crash(reason):
            # process stop: ship what the worker needs, then die without unwinding
            try:
                if sess is not None and hasattr(sess, 'export_carry'):
                    ctx.carry_out = sess.export_carry()
            except Exception as e:  # harness problem
                ctx.notes['export_carry_error'] = repr(e)
            ship({'status': 'crashed', 'crash_reason': reason, 'crash_op': ctx.op_index})
            os._exit(CRASH_EXIT)

        ctx.crash = on_crash
        sess = world.Session(ctx)
        i = start_op
        ops = spec['ops']
        op_faults = {}
        for f in ctx.faults:
            if f.get('kind') == 'crash@op':
                op_faults[f['op']] = f
        while i < len(ops):
            ctx.op_index = i
            if ctx.fs is not None:
                ctx.fs.begin_op(i)
            if i in op_faults and not (lifetime > 0 and i == start_op):
                ctx.count('fault:crash@op')
                ctx.log('CRASH@OP')
                result['next_op'] = i
                # crash between two operations: this op has not started
                if hasattr(sess, 'export_carry'):
                    ctx.carry_out = sess.export_carry()
                ship({'status': 'crashed', 'crash_reason': 'crash@op', 'crash_op': i,
                      'resume_same_op': True})
                os._exit(CRASH_EXIT)
            sess.apply(i, ops[i])
            if ctx.pending is not None:
                raise ctx.pending
            i += 1
        ctx.op_index = len(ops)
        if hasattr(sess, 'finish'):
            sess.finish()
    except Violation as v:
        v = ctx.pending or v
        ctx.violation = {'oracle': v.oracle, 'op': getattr(v, 'op', ctx.op_index),
                         'message': v.message,
                         'fs_event': getattr(v, 'fs_event', None), 'lifetime': lifetime}
        result['status'] = 'violation'
    except BaseException as e:  # noqa
        if ctx.pending is not None:
            v = ctx.pending
            ctx.violation = {'oracle': v.oracle, 'op': getattr(v, 'op', ctx.op_index),
                             'message': v.message, 'fs_event': getattr(v, 'fs_event', None),
                             'lifetime': lifetime}
            result['status'] = 'violation'
            try:
                ship()
            except BaseException:
                os._exit(71)
            os._exit(0)
        where, text = _classify_exception(e)
        oracle = getattr(world, 'RAISE_ORACLE', None)
        if callable(oracle):
            oracle = oracle(spec.get('profile', ''))
        if where == 'library' and oracle and isinstance(e, Exception):
            # an operation on a valid specification / table that the property requires to succeed raised inside
            # the library (the innermost frame is not harness code)
            last = traceback.extract_tb(e.__traceback__)[-1]
            ctx.violation = {'oracle': oracle, 'op': ctx.op_index, 'lifetime': lifetime, 'fs_event': None,
                             'message': f'operation {spec["ops"][ctx.op_index]["op"] if ctx.op_index < len(spec["ops"]) else "?"} '
                                        f'raised {type(e).__name__}: {str(e)[:300]} '
                                        f'(at {os.path.basename(last.filename)}:{last.lineno})'}
            result['status'] = 'violation'
        else:
            result['status'] = 'harness-error' if where == 'harness' else 'library-exception'
            result['error'] = text[-4000:]
            result['error_op'] = ctx.op_index
    try:
        ship()
    except BaseException:
        code = 71
    os._exit(code)


# --------------------------------------------------------------------------- worker side
def _read_result(rfd: int, pid: int, timeout: float):
    buf = bytearray()
    deadline = time.monotonic() + timeout
    need = None
    while True:
        left = deadline - time.monotonic()
        if left <= 0:
            try:
                os.kill(pid, signal.SIGKILL)
            except ProcessLookupError:
                pass
            os.waitpid(pid, 0)
            return {'status': 'timeout'}, None
        r, _, _ = select.select([rfd], [], [], min(left, 1.0))
        if not r:
            continue
        chunk = os.read(rfd, 1 << 20)
        if not chunk:
            break
        buf += chunk
        if need is None and len(buf) >= 8:
            need = struct.unpack('>Q', bytes(buf[:8]))[0]
    _, status = os.waitpid(pid, 0)
    if need is not None and len(buf) >= 8 + need:
        res = pickle.loads(bytes(buf[8:8 + need]))
    else:
        res = {'status': 'died'}
    if os.WIFSIGNALED(status):
        res['signal'] = os.WTERMSIG(status)
        if res.get('status') in ('died',):
            res['status'] = 'died'
    else:
        res['exit'] = os.WEXITSTATUS(status)
    return res, status


def run_spec(world, spec: dict, keep_dir: bool = False) -> dict:
    """Runs one session (all its process lifetimes) and returns the merged result."""
    scratch = os.path.join(SCRATCH_BASE, f'biosim-{os.getpid()}-{time.monotonic_ns()}')
    os.makedirs(scratch)
    merged = {'status': 'done', 'trace': [], 'counters': {}, 'probes': {}, 'states': [],
              'known': [], 'violation': None, 'lifetimes': 0, 'sim_seconds': 0.0,
              'fs': {'events': 0, 'kinds': {}, 'fired': {}, 'per_op': {}, 'log': []},
              'notes': {}}
    try:
        start_op, carry, lifetime = 0, None, 0
        while True:
            rfd, wfd = os.pipe()
            sys.stdout.flush()
            sys.stderr.flush()
            pid = os.fork()
            if pid == 0:
                os.close(rfd)
                try:
                    _child(world, spec, lifetime, start_op, carry, scratch, wfd)
                finally:
                    os._exit(72)
            os.close(wfd)
            res, _ = _read_result(rfd, pid, SESSION_TIMEOUT)
            os.close(rfd)
            merged['lifetimes'] += 1
            _merge(merged, res, lifetime)
            st = res.get('status')
            if st == 'crashed' and lifetime < 8:
                lifetime += 1
                carry = res.get('carry')
                start_op = res['crash_op'] if res.get('resume_same_op') else res['crash_op'] + 1
                merged['trace'].append([res['crash_op'], 'RESTART', res.get('crash_reason')])
                continue
            if st == 'crashed':
                merged['status'] = 'harness-error'
                merged['error'] = 'too many lifetimes'
            elif st == 'died' and world.died_is_outcome(spec, res):
                merged['status'] = 'done'
                merged['trace'].append(['DIED', res.get('signal'), res.get('exit')])
            elif st == 'died' and res.get('signal') in (signal.SIGSEGV, signal.SIGABRT, signal.SIGBUS, signal.SIGFPE,
                                                        signal.SIGILL) and merged['violation'] is None:
                # the library (or its engine) killed the process on an operation the property requires to succeed or to
                # be refused with an exception: that is a verdict on the code, not a problem of the harness (SIGKILL,
                # time-outs and Python-level failures of the harness stay harness errors)
                merged['status'] = 'violation'
                merged['violation'] = {'oracle': f"{spec['property']}.died", 'op': None, 'lifetime': lifetime,
                                       'fs_event': None,
                                       'message': f"the process running the session was killed by signal {res.get('signal')} "
                                                  f"({signal.Signals(res.get('signal')).name}) inside the library or its engine"}
            else:
                merged['status'] = st
                if 'error' in res:
                    merged['error'] = res['error']
                    merged['error_op'] = res.get('error_op')
                if st == 'died':
                    merged['error'] = f"child died signal={res.get('signal')} exit={res.get('exit')}"
            break
    finally:
        if not keep_dir:
            shutil.rmtree(scratch, ignore_errors=True)
        else:
            merged['scratch'] = scratch
    merged['digest'] = digest_of([merged['trace'], merged['fs']['log'], merged['violation']])
    return merged


def _merge(m, res, lifetime):
    m['trace'] += res.get('trace', [])
    for key in ('counters', 'probes'):
        for k, v in (res.get(key) or {}).items():
            m[key][k] = m[key].get(k, 0) + v
    m['states'] += res.get('states', [])
    m['known'] += res.get('known', [])
    m['sim_seconds'] += res.get('sim_seconds', 0.0)
    m['notes'].update(res.get('notes') or {})
    if res.get('violation') and not m['violation']:
        m['violation'] = res['violation']
    fs = res.get('fs')
    if fs:
        m['fs']['events'] += fs['events']
        for k, v in fs['kinds'].items():
            m['fs']['kinds'][k] = m['fs']['kinds'].get(k, 0) + v
        for k, v in fs['fired'].items():
            m['fs']['fired'][k] = m['fs']['fired'].get(k, 0) + v
        if lifetime == 0:
            m['fs']['per_op'] = dict(fs['per_op'])
        m['fs']['log'] += [[lifetime] + r for r in fs['log']]


# --------------------------------------------------------------------------- spec generation
def make_spec(world, prop: str, profile: str, tier: str, seed: int) -> dict:
    rng = stream(seed, 'gen')
    config = world.make_config(rng, profile, tier)
    ops = world.make_ops(rng, config, profile, tier)
    return {'biosim': BIOSIM_VERSION, 'property': prop, 'world': world.name,
            'profile': profile, 'run_seed': seed, 'config': config, 'ops': ops,
            'faults': []}


# --------------------------------------------------------------------------- shrinking
def shrink(world, spec: dict, oracle: str, budget_runs: int = 200, budget_s: float = 60.0):
    """ddmin over the operation list, then argument / fault simplification offered by the
    world. A candidate is kept only if the same oracle fires."""
    t0 = time.monotonic()
    runs = [0]

    def fails(cand) -> bool:
        if runs[0] >= budget_runs or time.monotonic() - t0 > budget_s:
            return False
        runs[0] += 1
        r = run_spec(world, cand)
        v = r.get('violation')
        return bool(v) and v['oracle'] == oracle

    def with_ops(s, ops, removed_idx):
        c = dict(s)
        c['ops'] = ops
        # faults are addressed by op index: remap, drop the ones whose op is gone
        keep_map = {}
        j = 0
        for i in range(len(s['ops'])):
            if i not in removed_idx:
                keep_map[i] = j
                j += 1
        c['faults'] = [dict(f, op=keep_map[f['op']]) for f in s.get('faults', [])
                       if f['op'] in keep_map]
        return c

    cur = spec
    n = 2
    while len(cur['ops']) >= 2:
        ops = cur['ops']
        size = max(1, len(ops) // n)
        reduced = False
        for start in range(0, len(ops), size):
            removed = set(range(start, min(len(ops), start + size)))
            if world.pinned_ops(cur) & removed:
                continue
            cand_ops = [o for i, o in enumerate(ops) if i not in removed]
            if not cand_ops:
                continue
            cand = with_ops(cur, cand_ops, removed)
            if fails(cand):
                cur = cand
                n = max(n - 1, 2)
                reduced = True
                break
        if not reduced:
            if size == 1:
                break
            n = min(len(ops), n * 2)
        if runs[0] >= budget_runs or time.monotonic() - t0 > budget_s:
            break
    # fault simplification: drop faults one at a time
    for k in range(len(cur.get('faults', [])) - 1, -1, -1):
        cand = dict(cur)
        cand['faults'] = cur['faults'][:k] + cur['faults'][k + 1:]
        if fails(cand):
            cur = cand
    # world-specific simplifications (arguments, config)
    for cand in world.simplifications(cur):
        if runs[0] >= budget_runs or time.monotonic() - t0 > budget_s:
            break
        if fails(cand):
            cur = cand
    return cur, runs[0]


def write_replay(spec: dict, result: dict, directory: str | None = None) -> str:
    d = directory or os.path.join(os.environ.get('BIOSIM_REPLAY_DIR') or os.path.join(VERIF_ROOT, 'replays'), spec['property'])
    os.makedirs(d, exist_ok=True)
    path = os.path.join(d, f"seed-{spec['run_seed']}-{result['violation']['oracle'].replace('/', '_').replace(':', '_')}.json")
    out = dict(spec)
    out['violation'] = result['violation']
    out['digest'] = result['digest']
    with open(path, 'w', encoding='utf-8') as f:
        json.dump(out, f, indent=1, sort_keys=True)
    return path
