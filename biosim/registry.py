"""Property -> world/profile/budgets/evidence texts."""

REAL = ['biogeme (all of /repo/src/biogeme, working tree)', 'cythonbiogeme (compiled engine, real threads)',
        'biogeme_optimization', 'numpy/pandas/scipy', 'pickle', 'tomlkit parser', 'CPython io stack',
        'kernel file system (tmpfs)', 'process death and restart (fork/_exit)']
STUBS = ['clock (SimClock behind module attributes)', 'scripted optimiser registered in optimization.algorithms (some runs)',
         'tomlkit Item.comment shim (tomlkit 0.15 rejects the multi-line comments Parameters.dump_file writes)',
         'mp.cpu_count']

REGISTRY = {
    'C15': {
        'world': 'iter', 'profile': '',
        'sessions': {'quick': 400, 'thorough': 6000},
        'budget': {'quick': 100, 'thorough': 1500},
        'rule': 'One case = one seeded session (config + operation list [+ fault plan]) run against the real '
                'library in forked process lifetimes. Distinct = distinct sha256 of (operation kinds, abstract '
                'model state after every operation, faults fired). Non-trivial = the iteration file was rewritten '
                'at least twice and a worse-than-best derivative evaluation happened, or a crash / torn write / '
                'I/O fault fired inside a save.',
        'components': {'real': REAL, 'stub': STUBS},
        'assumptions': [
            'A1: the first evaluation of an epoch has a finite value',
            'A2: parameter names contain no "=", no line break, no leading/trailing blank (limits of the documented name = value format)',
            'crash model is process stop (page cache survives), not power loss',
            'epoch semantics: best-so-far restarts at object construction and at each estimate(), as the code documents',
            'engine thread interleaving is not scheduled (external compiled wheel); results are a deterministic function of (data, T)',
        ],
    },
    'C14': {
        'world': 'out', 'profile': '',
        'sessions': {'quick': 260, 'thorough': 4000},
        'budget': {'quick': 100, 'thorough': 1500},
        'rule': 'One case = one seeded session of output-generating operations (estimate with html/pickle, '
                'write_html/latex/f12/pickle, dump_on_file, validate, flat-panel save, load, recycle, TOML dump/read, '
                'planted adversarial directory entries, backups) in one directory [+ fault plan]. Distinct = distinct '
                'sha256 of (operation kinds, directory listing after every operation, faults fired). Non-trivial = at '
                'least two files of the same kind were produced for one model, or a planted file collided with a '
                'generated name.',
        'components': {'real': REAL, 'stub': STUBS},
        'assumptions': [
            'sequential histories only: two concurrent processes racing in get_new_file_name are outside the quantifier',
            'files the user names explicitly (the TOML file passed to dump_file, the target of create_backup(rename=True)) and '
            '__*.iter / biogeme.toml are not result, report or data-dump files',
            'model names contain no "~" (reserved by the naming scheme); parameter names are plain identifiers (report markup is not escaped)',
            'report equality is judged with the simulated clock set to the instant of writing',
            'tomlkit Item.comment shim active (the image has tomlkit 0.15.1, which rejects the comments dump_file writes)',
        ],
    },
    'C13': {
        'world': 'db', 'profile': '', 'faulty': False,
        'sessions': {'quick': 9000, 'thorough': 150000},
        'budget': {'quick': 90, 'thorough': 1500},
        'rule': 'One case = one seeded session of table operations (remove, add_column/define_variable, scale, panel, '
                'split, resample rows/individuals, extract, flatten, count, mdcev_count/row_split, refused operations, '
                'RNG advances) on one Database, stepped against a row-list model. Distinct = distinct sha256 of '
                '(operation kinds, model state after every operation). Non-trivial = at least 3 mutating operations '
                'of at least 2 kinds.',
        'components': {'real': REAL, 'stub': ['np.random / random seeded per session (split, resample)']},
        'assumptions': [
            'a removal that would delete every row is not issued (an empty table is refused by the Database constructor)',
            'row identity is followed through a unique tag column that no operation mutates',
            'no file-system or crash fault applies: these operations touch no file (fault kind used: rng-advance, refused operations)',
        ],
    },
    'C04': {
        'world': 'like', 'profile': '', 'faulty': False,
        'sessions': {'quick': 2500, 'thorough': 40000},
        'budget': {'quick': 90, 'thorough': 1500},
        'rule': 'One case = one seeded session on one data set and model: objects built with different thread counts '
                '(1..N+3 and 0) and row permutations, likelihood / derivative / simulation calls at shared parameter '
                'points, row partitions whose values are added, per-observation evaluations, and history operations '
                '(null likelihood, unrelated evaluation, quick estimation, bootstrap estimation, change of initial '
                'values) that must not matter. Distinct = distinct sha256 of (operation kinds, settings, memo size). '
                'Non-trivial = at least 3 comparisons between distinct (T, permutation/partition) settings.',
        'components': {'real': REAL, 'stub': ['mp.cpu_count']},
        'assumptions': [
            'A3: the table is not mutated between the construction of a BIOGEME object and its use',
            'interleaving of engine threads is not scheduled (external compiled wheel, no seam); T, row order and partition are',
            'the reference value of each observation is computed in Python from the mathematical definition of the generated model family',
        ],
    },
    'C07': {
        'world': 'like', 'profile': 'est', 'faulty': False,
        'sessions': {'quick': 1800, 'thorough': 30000},
        'budget': {'quick': 100, 'thorough': 1500},
        'rule': 'One case = one seeded session of estimations on one concave problem (ridge-penalised logit or quadratic) '
                'with a generated bound plan (none / wide / active at the optimum / one-sided): every algorithm name, '
                'with and without bootstrap and saved iterations, on fresh and previously used objects, followed by '
                'recomputation. Distinct = distinct sha256 of (operation kinds, settings). Non-trivial = at least 2 estimations.',
        'components': {'real': REAL, 'stub': ['mp.cpu_count']},
        'assumptions': [
            'partial: non-concave models, convergence failures and the optimiser library internals are out of scope',
            'stationarity is judged with a finite-difference gradient of the reference likelihood and 10x the default tolerance',
            'algorithms that ignore bounds (TR-*, LS-*) are compared with the bounded ones only when no bound is planned active',
        ],
    },
    'C09': {
        'world': 'panel', 'profile': '', 'faulty': False,
        'sessions': {'quick': 2500, 'thorough': 40000},
        'budget': {'quick': 90, 'thorough': 1500},
        'rule': 'One case = one seeded session on one panel table (1-8 individuals with 1-6 rows, arbitrary ids, seeded '
                'order of individuals and of rows inside them): re-presentations in other orders, removals after the '
                'panel declaration (whole individual, first/last row, by condition), evaluations of the trajectory, its '
                'log and their Monte-Carlo versions through get_value_c, likelihood and simulate with T = 1..individuals+2, '
                'map and sample-size checks. Distinct = distinct sha256 of (operation kinds, model state). Non-trivial = '
                'at least 2 individuals with different row counts and at least one reorder or removal.',
        'components': {'real': REAL, 'stub': ['user draw generators: deterministic functions of (individual position, draw index)']},
        'assumptions': [
            'A3: between a removal and the next evaluation the individual map is legitimately stale; values are judged after the evaluation rebuilt it',
            'native (random) draw types are covered under C10, not here',
            'per-row reference values come from the reference interpreter, products and means from the row list',
        ],
    },
    'C16': {
        'world': 'cat', 'profile': '', 'faulty': False,
        'sessions': {'quick': 7000, 'thorough': 100000},
        'budget': {'quick': 90, 'thorough': 1500},
        'rule': 'One case = one seeded catalog structure (1-4 controllers of sizes 1-4, catalogs sharing a controller, '
                'catalogs nested under members of other catalogs, optional segmentation / generic-alt-specific helper '
                'catalogs) and a session of configure / select / operator / increase-decrease / iterate / identifier / '
                'evaluate / BIOGEME.from_configuration operations stepped against a dict controller->index. Distinct = '
                'distinct sha256 of (operation kinds, model state). Non-trivial = at least 2 controllers and at least 3 '
                'operator applications.',
        'components': {'real': REAL, 'stub': ['random seeded before each operator call (Increase_several / Decrease_several)']},
        'assumptions': [
            'Increase_several / Decrease_several are only required to return a valid configuration (their documented direction is not part of the property)',
            'no I/O or crash fault applies: catalogs touch no file; the history of operator applications on shared mutable controllers is the schedule',
        ],
    },
    'C01': {
        'world': 'eval', 'profile': '', 'faulty': False,
        'sessions': {'quick': 12000, 'thorough': 200000},
        'budget': {'quick': 90, 'thorough': 1500},
        'rule': 'One case = one seeded session over a pool of generated well-formed formulas (every operator kind of the '
                'statement) whose Beta, Variable and sub-tree OBJECTS are shared: evaluations through get_value_c / '
                'get_value_and_derivatives / pure-Python get_value on two databases with different column orders, '
                'BIOGEME objects built from several formulas, simulate / likelihood / null likelihood on live objects, '
                'columns added from formulas, new formulas added mid-session. Distinct = distinct sha256 of (operation '
                'kinds, model state). Non-trivial = at least 2 evaluations of formulas that share nodes with a formula '
                'evaluated earlier.',
        'components': {'real': REAL, 'stub': []},
        'assumptions': [
            'partial: "engine value = mathematical value for every formula" is sampled through the workload; what the simulation '
            'decides is the history clause (sharing / side-by-side evaluation changes no value, valid formulas keep evaluating)',
            'reference interpreter written from the documentation of each operator (DESIGN appendix A)',
            'formulas are kept inside their regular domain by construction and by rejection through the reference interpreter',
            'A3: a BIOGEME object is not used after its table has been mutated',
        ],
    },
    'C12': {
        'world': 'eval', 'profile': 'faults', 'faulty': False,
        'sessions': {'quick': 2500, 'thorough': 40000},
        'budget': {'quick': 90, 'thorough': 1500},
        'rule': 'One case = one seeded W-eval session into which specification faults are planted at seeded positions of '
                'valid formulas (absent column, one name for two kinds, draws outside Monte-Carlo, integration variable '
                'outside an integral, second derivatives without first, choice / availability keys inconsistent with the '
                'utilities, NaN / text / empty table, data variable outside the trajectory on panel data, overlapping nests, '
                'nest leaving the choice set, missing-data code in a read / unread cell) through BIOGEME, get_value_c and '
                'get_value_and_derivatives, interleaved with valid evaluations on objects that share Beta / Variable / '
                'sub-tree objects with the faulty ones. Distinct = distinct sha256 of (operation kinds, model state). '
                'Non-trivial = at least one fault followed by at least one valid evaluation.',
        'components': {'real': REAL, 'stub': []},
        'assumptions': [
            'decided: (a) a planted fault is refused with the library\'s own error type (BiogemeError) and a message, at every '
            'seeded position of the formula and through BIOGEME / get_value_c / get_value_and_derivatives, before any number; '
            '(b) no collateral damage on valid specifications afterwards, in the same process for Python-level refusals and '
            'after a simulated process restart for engine-raised errors; (c) the missing-data code fails iff read (engine error '
            'type accepted there); fault kinds and positions are sampled, not enumerated',
            'read-set of an observation is the reference interpreter\'s (Elem branch taken, ConditionalSum terms whose condition '
            'holds, available alternatives of a logit)',
        ],
    },
    'C10': {
        'world': 'draws', 'profile': '', 'faulty': False, 
        'sessions': {'quick': 12000, 'thorough': 200000},
        'budget': {'quick': 90, 'thorough': 1500},
        'rule': 'One case = one seeded session on one Monte-Carlo formula with 1-3 draw variables of different types (all 21 '
                'native types through recording wrappers, deterministic and random user generators): get_value_c with '
                'several R, BIOGEME constructions with zero / non-zero seeds, likelihood and simulate on live objects, RNG '
                'advances, unrelated Monte-Carlo evaluations on the same database with another R between construction and '
                'use, reconstructions with the same seed, reserved generator names, sampled Integrate / Derive evaluations. Distinct = distinct sha256 of (operation '
                'kinds, number of live objects). Non-trivial = at least 2 draw variables and at least 2 Monte-Carlo values '
                'matched against recorded series.',
        'components': {'real': REAL, 'stub': ['recording wrappers around native_random_number_generators entries (pass-through)',
                                              'user draw generators supplied by the workload']},
        'assumptions': [
            'partial: decided are the Monte-Carlo mean, the routing of each named draw variable to its own series, the use of '
            'exactly what the registered generator produced, reproducibility with a non-zero seed; Integrate (three smooth, '
            'normally decaying integrand families against adaptive quadrature, 1e-7) and Derive (three formula families against '
            'central differences of the reference, 1e-6) are only SAMPLED as workload - they are pure numerics',
            'which of the generations recorded during a BIOGEME construction the engine uses is an internal detail: the '
            'oracle is existential over complete recorded generations and then sticks to the matching one',
        ],
    },
    'C03': {
        'world': 'names', 'profile': '', 'faulty': False,
        'sessions': {'quick': 5000, 'thorough': 80000},
        'budget': {'quick': 90, 'thorough': 1500},
        'rule': 'One case = one seeded session of by-name operations (likelihood and derivatives at named points, '
                'change_init_values on the object or on the formula with partial dictionaries, get_value_c with partial '
                'dictionaries, simulate with dictionaries in seeded key order, estimation, fix_betas, reads of values / '
                'free names / bounds, a name used for two kinds) executed side by side in two universes: the original '
                'naming and a seeded bijective renaming (order-reversing in half of the runs, names differing by case) '
                'with the terms listed in reverse order. Distinct = distinct sha256 of (operation kinds, store after every '
                'operation). Non-trivial = at least 3 cross-universe comparisons and at least one by-name write.',
        'components': {'real': REAL, 'stub': ['mp.cpu_count']},
        'assumptions': [
            'partial: "all model specifications" is sampled through small ridge-penalised logit / quadratic families',
            'dictionaries passed to change_init_values on a live object name free parameters only',
            'estimates are compared at 2e-4 relative, standard errors and t statistics at 5e-3 (optimiser tolerance)',
        ],
    },
}

LEVEL_TEXT = {
    'C03': 'Partial. Parameter values live in several mutable places; seeded histories of by-name writes and reads are '
           'checked against a name->value store, and every result is compared between two universes that differ only '
           'by a bijective renaming and by the order of terms (differential execution of the same session).',
    'C10': 'Partial. Randomness behind a recording seam: every series a generator produced is recorded, and every '
           'Monte-Carlo value returned by the engine must equal the mean over the draws of the reference integrand with '
           'each draw variable replaced by its own recorded series; live objects must be unaffected by unrelated '
           'regenerations of the shared draw table and reproducible under a non-zero seed. Sampling, not proof.',
    'C12': 'Faults are planted into running sessions (fault injection at the specification level) at seeded positions '
           'under every operator kind: each must be refused with the library\'s own error type before any number; the '
           'recovery of every valid specification is checked afterwards, in-process and after a simulated process '
           'restart; missing-data cells are judged against the reference read-set. Sampling, not proof.',
    'C01': 'Partial. Seeded search over evaluation histories on shared mutable expression nodes; every returned value is '
           'compared with a reference interpreter, and every evaluation of a valid formula must return, whatever '
           'evaluations and constructions preceded it. The formula space itself is only sampled.',
    'C16': 'Seeded search over catalog structures and operator histories on shared mutable controllers; after every step '
           'the configuration, every catalog selection and the value of the configured formula are compared with a '
           'product-space model and the formula written out by hand (reference interpreter and a fresh biogeme '
           'expression). Sampling, not proof.',
    'C09': 'Seeded search over panel tables, presentation orders, removal histories and thread counts; per-individual '
           'values, likelihood, simulated values, individual map and sample size are compared with a row-list reference '
           '(product over exactly the individual\'s rows, one draw per individual and draw index, mean over R). Sampling, not proof.',
    'C04': 'Seeded search over (thread count, row permutation, partition, history) schedules the Python layer controls; '
           'every value is compared with a Python reference of the weighted sum and with every other setting at the '
           'same parameter point. Sampling, not proof; engine thread interleaving itself is not scheduled.',
    'C07': 'Partial. Seeded search over estimation histories (algorithm, bounds, bootstrap, saved iterations, reuse of '
           'objects): what an estimation reports is recomputed by the same and by a fresh object and by a reference '
           'likelihood; stationarity and cross-algorithm agreement are sampled as differential re-runs.',
    'C13': 'Seeded search over operation histories on one mutable table (with index gaps, shuffled, offset and duplicated '
           'index labels, contiguous and non-contiguous groups); after every operation the real table is compared '
           'cell by cell with a row-list reference model and every returned frame (folds, resamples, extracts, flat '
           'table) with what the model implies. Sampling, not proof.',
    'C14': 'Seeded search over histories of output generation in one directory, with adversarial pre-existing entries, '
           'I/O errors, torn/short writes and real process deaths; the directory is compared byte-for-byte with its '
           'state before each operation at every destructive FS event and after the operation; pickles are reloaded '
           'and every report compared under the same simulated instant. Sampling, not proof.',
    'C15': 'Seeded search over evaluation histories x crash points x I/O faults: every file-system event of every '
           'session is a virtual crash point at which the directory is judged against a reference model of the '
           'admissible file contents; sampled events are turned into real process deaths (fork/_exit) followed by a '
           'restart through the real estimate() path. Sampling, not proof.',
}

NOT_APPLICABLE = {
    'C02': 'derivatives are a pure function of (formula, row, parameter point): no schedule, clock, fault or history; deciding it is numerical differential testing, not simulation',
    'C05': 'choice probabilities are pure algebra of utilities, availabilities and nest parameters: nothing for a simulator to schedule or fault',
    'C06': 'model-family consistency is pure algebra relating two formulas on the same inputs',
    'C08': 'reported statistics are closed formulas over one raw-result record; nothing stateful, no I/O, no time',
    'C11': 'draw types are a pure function of (sizes, RNG stream) and, for Halton/quantile parts, of sizes alone',
    'C17': 'specification helpers are closed forms of their arguments',
    'C18': 'MDCEV forecasts are a pure function of (row, parameters, one error draw); no state between calls',
    'C19': 'sampled choice sets are a pure function of (tables, partition, RNG stream); no history or fault surface',
    'C20': 'deprecated names are a static forwarding relation between two callables',
}
