"""Batch runner: worker pool, aggregation, shrinking, replay, evidence."""

from __future__ import annotations

import importlib
import json
import multiprocessing as mp
import os
import pickle
import struct
import sys
import time
import traceback

from . import core
from .registry import REGISTRY

NWORKERS = int(os.environ.get('BIOSIM_WORKERS', '16'))


def load_world(name: str):
    return importlib.import_module(f'biosim.worlds.{name}')


def _summary(spec, res, kind, world, want_spec=False):
    s = {
        'seed': spec['run_seed'], 'kind': kind, 'status': res['status'],
        'violation': res.get('violation'), 'known': res.get('known', []),
        'counters': res.get('counters', {}), 'probes': res.get('probes', {}),
        'fs_kinds': res['fs']['kinds'], 'fs_fired': res['fs']['fired'],
        'fs_events': res['fs']['events'], 'n_ops': len(spec['ops']),
        'lifetimes': res.get('lifetimes', 1), 'sim_seconds': res.get('sim_seconds', 0.0),
        'digest': res.get('digest'), 'states': res.get('states', []),
        'faults': spec.get('faults', []), 'error': res.get('error'),
        'error_op': res.get('error_op'),
    }
    try:
        s['nontrivial'] = bool(world.nontrivial(spec, res))
    except Exception:
        s['nontrivial'] = False
    s['history_key'] = core.digest_of([[o['op'] for o in spec['ops']], res.get('states', []),
                                       sorted(res['fs']['fired'].items())])[:20]
    if want_spec or res['status'] != 'done' or res.get('violation'):
        s['spec'] = spec
    return s


def _worker(widx, nworkers, prop, entry, tier, verif_seed, n, stop, wfd, deadline):
    try:
        from . import env
        env.import_library()
        world = load_world(entry['world'])
        out = os.fdopen(wfd, 'wb')

        def send(obj):
            data = pickle.dumps(obj, protocol=4)
            out.write(struct.pack('>Q', len(data)) + data)
            out.flush()

        for i in range(widx, n, nworkers):
            if stop.value or time.monotonic() > deadline:
                break
            seed = core.run_seed(verif_seed, prop, i)
            spec = core.make_spec(world, prop, entry.get('profile', ''), tier, seed)
            base = core.run_spec(world, spec)
            send(_summary(spec, base, 'base', world, want_spec=(i < 3)))
            if base['status'] == 'done' and not base.get('violation') and hasattr(world, 'fault_plans') \
                    and entry.get('faulty', True):
                frng = core.stream(seed, 'fault')
                plans = world.fault_plans(frng, spec, base, tier)
                for plan in plans:
                    if stop.value or time.monotonic() > deadline:
                        break
                    fspec = dict(spec, faults=plan)
                    r = core.run_spec(world, fspec)
                    send(_summary(fspec, r, 'faulty', world, want_spec=(i < 2)))
        send(None)
        out.close()
    except BaseException:
        traceback.print_exc()
        os._exit(3)
    os._exit(0)


def run_batch(prop, entry, tier, verif_seed, n, budget_s):
    ctx = mp.get_context('fork')
    stop = ctx.Value('i', 0)
    deadline = time.monotonic() + budget_s
    procs = []
    nworkers = min(NWORKERS, max(1, n))
    for w in range(nworkers):
        rfd, wfd = os.pipe()
        sys.stdout.flush()
        sys.stderr.flush()
        pid = os.fork()
        if pid == 0:
            os.close(rfd)
            for (_, r0) in procs:
                try:
                    os.close(r0)
                except OSError:
                    pass
            _worker(w, nworkers, prop, entry, tier, verif_seed, n, stop, wfd, deadline)
            os._exit(0)
        os.close(wfd)
        procs.append((pid, rfd))
    import selectors
    sel = selectors.DefaultSelector()
    bufs = {}
    for pid, rfd in procs:
        os.set_blocking(rfd, False)
        sel.register(rfd, selectors.EVENT_READ, pid)
        bufs[rfd] = bytearray()
    summaries = []
    finished = set()
    worker_failed = []
    open_fds = {rfd for _, rfd in procs}
    while open_fds:
        for key, _ in sel.select(timeout=1.0):
            rfd = key.fd
            try:
                chunk = os.read(rfd, 1 << 20)
            except BlockingIOError:
                continue
            if not chunk:
                sel.unregister(rfd)
                os.close(rfd)
                open_fds.discard(rfd)
                continue
            b = bufs[rfd]
            b += chunk
            while len(b) >= 8:
                need = struct.unpack('>Q', bytes(b[:8]))[0]
                if len(b) < 8 + need:
                    break
                obj = pickle.loads(bytes(b[8:8 + need]))
                del b[:8 + need]
                if obj is None:
                    finished.add(key.data)
                else:
                    summaries.append(obj)
                    v = obj.get('violation')
                    if v or obj['status'] not in ('done',):
                        # enough material: stop early once a few failures are in
                        bad = [s for s in summaries if s.get('violation') or s['status'] != 'done']
                        if len(bad) >= 12:
                            stop.value = 1
    for pid, _ in procs:
        _, st = os.waitpid(pid, 0)
        if pid not in finished:
            worker_failed.append(pid)
    truncated = time.monotonic() > deadline
    return summaries, worker_failed, truncated


def _agg(summaries):
    agg = {'counters': {}, 'probes': {}, 'fs_kinds': {}, 'fs_fired': {}, 'faults_planned': {}}
    for s in summaries:
        for k in ('counters', 'probes', 'fs_kinds', 'fs_fired'):
            for kk, vv in s[k].items():
                agg[k][kk] = agg[k].get(kk, 0) + vv
        for f in s['faults']:
            agg['faults_planned'][f['kind']] = agg['faults_planned'].get(f['kind'], 0) + 1
    return agg


def check(prop: str, tier: str, verif_seed: int) -> int:
    t0 = time.monotonic()
    from . import env
    env.import_library()  # before forking: workers and shrink children inherit the image
    entry = REGISTRY[prop]
    world = load_world(entry['world'])
    n = int(os.environ.get('BIOSIM_SESSIONS') or entry['sessions'][tier])
    budget = float(os.environ.get('BIOSIM_BUDGET') or entry['budget'][tier])
    print(f'biosim check property={prop} tier={tier} VERIF_SEED={verif_seed} world={entry["world"]} '
          f'profile={entry.get("profile", "")} sessions={n} workers={NWORKERS}', flush=True)
    summaries, worker_failed, truncated = run_batch(prop, entry, tier, verif_seed, n, budget)
    summaries.sort(key=lambda s: (s['seed'], s['kind'], json.dumps(s['faults'], sort_keys=True)))
    wall_batch = time.monotonic() - t0
    viol = [s for s in summaries if s.get('violation')]
    harness = [s for s in summaries if s['status'] not in ('done', 'violation')]
    known_hits = {}
    for s in summaries:
        for k in s['known']:
            known_hits[k['id']] = known_hits.get(k['id'], 0) + 1
    exit_code = 0
    replays = []
    # ---- violations: confirm, shrink, write replay
    by_oracle = {}
    for s in viol:
        by_oracle.setdefault(s['violation']['oracle'], s)
    shown = 0
    for oracle, s in sorted(by_oracle.items()):
        if shown >= 3:
            break
        shown += 1
        spec = s['spec']
        again = core.run_spec(world, spec)
        v2 = again.get('violation')
        if v2 and v2['oracle'] != oracle:
            # the session violates the property on both executions, with two different symptoms (typical of a process that
            # writes or reads outside its memory: it dies once, raises the next time): reported as it is, not minimised
            path = core.write_replay(spec, again)
            replays.append(path)
            print(f'  oracle {v2["oracle"]} at op {v2["op"]}: {v2["message"]}')
            print(f'  (first execution: oracle {oracle}; the two executions of seed {spec["run_seed"]} fail in different ways, '
                  f'the session is reported unminimised)')
            print(f'VIOLATION property={prop} replay={path}', flush=True)
            exit_code = max(exit_code, 1)
            continue
        if not v2:
            print(f'HARNESS-ERROR property={prop} violation {oracle} of seed {spec["run_seed"]} did not '
                  f'reproduce on re-execution ({v2})', flush=True)
            exit_code = 2
            continue
        small, runs = core.shrink(world, spec, oracle, budget_runs=entry.get('shrink_runs', 150),
                                  budget_s=entry.get('shrink_s', 40.0))
        final = core.run_spec(world, small)
        if not final.get('violation') or final['violation']['oracle'] != oracle:
            small, final = spec, again
        path = core.write_replay(small, final)
        replays.append(path)
        print(f'  oracle {oracle} at op {final["violation"]["op"]}: {final["violation"]["message"]}')
        print(f'  minimised to {len(small["ops"])} operation(s), {len(small.get("faults", []))} fault(s) '
              f'after {runs} re-executions; original seed {spec["run_seed"]}')
        print(f'VIOLATION property={prop} replay={path}', flush=True)
        exit_code = max(exit_code, 1)
    for kid, cnt in sorted(known_hits.items()):
        k = next(x for x in core.load_known() if x['id'] == kid)
        print(f'KNOWN-FINDING: property={prop} {k["what"]} [{kid}; seen in {cnt} session(s)]', flush=True)
    for s in harness[:5]:
        where = ''
        if 'spec' in s:
            # kept for diagnosis (python -m biosim replay <file>); a harness error is not a verdict on the property
            d_ = os.path.join(os.environ.get('BIOSIM_REPLAY_DIR') or os.path.join(core.VERIF_ROOT, 'replays'), prop)
            os.makedirs(d_, exist_ok=True)
            where = os.path.join(d_, f'harness-{s["seed"]}.json')
            with open(where, 'w', encoding='utf-8') as f_:
                json.dump(s['spec'], f_, indent=1, sort_keys=True)
        print(f'HARNESS-ERROR property={prop} seed={s["seed"]} status={s["status"]} op={s.get("error_op")} '
              f'faults={s["faults"]} session={where}\n{(s.get("error") or "")[-1500:]}', flush=True)
    if harness or worker_failed:
        exit_code = 2 if exit_code == 0 else exit_code
        if worker_failed:
            print(f'HARNESS-ERROR property={prop} worker processes failed: {worker_failed}', flush=True)
    if not summaries:
        print(f'HARNESS-ERROR property={prop} no session was run', flush=True)
        exit_code = 2
    # ---- determinism re-check: sampled sessions are executed again here (another process, another worker
    # count) and must give the same digest
    recheck = {'sessions': 0, 'mismatches': 0}
    for s_ in [x for x in summaries if 'spec' in x and x['status'] == 'done'][:4]:
        again = core.run_spec(world, s_['spec'])
        recheck['sessions'] += 1
        if again.get('digest') != s_['digest']:
            recheck['mismatches'] += 1
            print(f'HARNESS-ERROR property={prop} seed={s_["seed"]} is not deterministic: digest {s_["digest"][:12]} vs '
                  f'{again.get("digest", "")[:12]}', flush=True)
            exit_code = 2 if exit_code == 0 else exit_code
    # ---- evidence
    agg = _agg(summaries)
    distinct = {}
    for s in summaries:
        if s['nontrivial']:
            distinct[s['history_key']] = 1
    all_hist = {s['history_key'] for s in summaries}
    wall = time.monotonic() - t0
    samples = []
    for s in summaries:
        if 'spec' in s and len(samples) < 3 and s['status'] == 'done':
            samples.append({'run_seed': s['seed'], 'kind': s['kind'], 'config': s['spec']['config'],
                            'ops': s['spec']['ops'], 'faults': s['spec'].get('faults', []),
                            'digest': s['digest']})
    base_n = sum(1 for s in summaries if s['kind'] == 'base')
    ev = {
        'property_id': prop, 'tier': tier, 'seed': verif_seed, 'level': 'exploration',
        'coverage': {
            'evaluations': len(summaries),
            'distinct_nontrivial': len(distinct),
            'rule': entry['rule'],
            'samples': samples or [{'note': 'no completed session to sample'}],
            'sessions_fault_free': base_n,
            'sessions_with_faults': len(summaries) - base_n,
            'distinct_histories': len(all_hist),
            'states': len({h for s in summaries for h in s['states']}),
            'states_measure': 'distinct sha256 of the abstract reference-model state after an operation, over all sessions',
            'seeds': {'VERIF_SEED': verif_seed, 'derivation': 'run_seed(i) = int(sha256(f"{VERIF_SEED}:{property}:{i}")[:8], 16)',
                      'first_run_seeds': [s['seed'] for s in summaries if s['kind'] == 'base'][:5]},
            'operations_by_kind': {k[3:]: v for k, v in sorted(agg['counters'].items()) if k.startswith('op:')},
            'other_counters': {k: v for k, v in sorted(agg['counters'].items()) if not k.startswith('op:')},
            'faults_fired_by_kind': dict(sorted({**agg['fs_fired'],
                                                   **{k[6:]: v for k, v in agg['counters'].items() if k.startswith('fault:')},
                                                   **({'refused-operation': agg['counters']['refused']}
                                                      if agg['counters'].get('refused') else {})}.items())),
            'faults_planned_by_kind': dict(sorted(agg['faults_planned'].items())),
            'fs_events_by_kind': dict(sorted(agg['fs_kinds'].items())),
            'process_lifetimes': sum(s['lifetimes'] for s in summaries),
            'reach_probes': dict(sorted(agg['probes'].items())),
            'simulated_seconds': sum(s['sim_seconds'] for s in summaries),
            'sessions_per_hour': int(len(summaries) / max(wall_batch, 1e-6) * 3600),
            'truncated_by_wall_budget': truncated,
            'components': entry['components'],
            'known_findings_seen': known_hits,
            'harness_errors': len(harness) + len(worker_failed),
            'determinism_recheck': recheck,
            'replays': replays,
            'technique': 'deterministic simulation with fault injection (seeded sessions, forked '
                         'process lifetimes, reference model, FS/clock/RNG seams)',
        },
        'assumptions': entry['assumptions'],
        'wall_s': round(wall, 2),
        'violations': len(by_oracle),
    }
    evdir = os.environ.get('BIOSIM_EVIDENCE_DIR') or os.path.join(core.VERIF_ROOT, 'evidence')
    os.makedirs(evdir, exist_ok=True)
    path = os.path.join(evdir, f'{prop}.json')
    tmp = path + '.tmp'
    with open(tmp, 'w', encoding='utf-8') as f:
        json.dump(ev, f, indent=1, sort_keys=True, default=str)
    os.replace(tmp, path)
    print(f'sessions={len(summaries)} (fault-free {base_n}) distinct_nontrivial={len(distinct)} '
          f'fs_events={sum(agg["fs_kinds"].values())} faults_fired={ev["coverage"]["faults_fired_by_kind"]} '
          f'violations={len(by_oracle)} known={known_hits} harness_errors={len(harness)} '
          f'wall={wall:.1f}s exit={exit_code}', flush=True)
    return exit_code


def replay(path: str) -> int:
    with open(path, encoding='utf-8') as f:
        spec = json.load(f)
    from . import env
    env.import_library()
    world = load_world(spec['world'])
    want = spec.get('violation')
    res = core.run_spec(world, spec)
    got = res.get('violation')
    print(f'replay {path}: status={res["status"]} digest={res["digest"][:16]}')
    if got:
        print(f'  oracle {got["oracle"]} at op {got["op"]} (fs event {got.get("fs_event")}): {got["message"]}')
    if res['status'] not in ('done', 'violation'):
        print(f'HARNESS-ERROR replay status={res["status"]}\n{res.get("error")}')
        return 2
    if got and (not want or got['oracle'] == want['oracle']):
        same = (want is None) or (got['op'] == want['op'])
        print(f'VIOLATION property={spec["property"]} replay={path}'
              + ('' if same else '  (same oracle, different operation index)'))
        return 1
    print('no violation on replay')
    return 0


def trace(path_or_seed: str, prop: str | None, tier: str = 'quick') -> int:
    """Debug helper: print the full trace of one session."""
    if os.path.exists(path_or_seed):
        with open(path_or_seed, encoding='utf-8') as f:
            spec = json.load(f)
    else:
        entry = REGISTRY[prop]
        world = load_world(entry['world'])
        spec = core.make_spec(world, prop, entry.get('profile', ''), tier, int(path_or_seed))
    world = load_world(spec['world'])
    res = core.run_spec(world, spec)
    print(json.dumps({'config': spec['config'], 'ops': spec['ops'], 'faults': spec['faults']}, default=str))
    for r in res['trace']:
        print(r)
    for r in res['fs']['log'][:200]:
        print('fs', r)
    print(res['status'], res.get('violation'), res.get('error'))
    print('probes', res['probes'])
    return 0
