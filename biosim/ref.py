"""Reference interpreter for the expression language (written from the documentation of each
operator, DESIGN Appendix A) and builder of the corresponding biogeme expressions.

AST nodes are JSON lists: ['num', v] ['var', name] ['beta', name] ['+', a, b] ... see `ev`.
`['ref', i]` denotes the i-th entry of a pool of shared sub-trees: the builder maps it to ONE
biogeme object reused by every parent (deliberate sharing)."""

from __future__ import annotations

import math


class RefError(Exception):
    """The formula is outside its regular domain at this row (log of non-positive...)."""


class Env:
    def __init__(self, row: dict, betas: dict, pool: list | None = None, draws: dict | None = None,
                 missing=None):
        self.row = row
        self.betas = betas
        self.pool = pool or []
        self.draws = draws or {}
        self.reads: set[str] = set()
        self.reads_var: set[str] = set()   # read through a Variable node
        self.reads_lin: set[str] = set()   # read through a bioLinearUtility term
        self.reads_maybe: set[str] = set()  # right operand of and/or when the left one decides
        self.maybe_missing = False
        self.missing = missing
        self.read_missing = False


def truth(x: float) -> bool:
    return x != 0.0


def ev(n, e: Env) -> float:
    k = n[0]
    if k == 'num':
        return float(n[1])
    if k == 'var':
        e.reads.add(n[1])
        e.reads_var.add(n[1])
        v = float(e.row[n[1]])
        if e.missing is not None and v == e.missing:
            e.read_missing = True
        return v
    if k == 'beta':
        return float(e.betas[n[1]])
    if k == 'ref':
        return ev(e.pool[n[1]], e)
    if k == 'draws':
        return float(e.draws[n[1]])
    if k == 'rv':
        return float(e.omega)
    if k == '+':
        return ev(n[1], e) + ev(n[2], e)
    if k == '-':
        return ev(n[1], e) - ev(n[2], e)
    if k == '*':
        return ev(n[1], e) * ev(n[2], e)
    if k == '/':
        a, b = ev(n[1], e), ev(n[2], e)
        if b == 0:
            raise RefError('division by zero')
        return a / b
    if k == 'neg':
        return -ev(n[1], e)
    if k == 'pow':
        a, b = ev(n[1], e), ev(n[2], e)
        if a <= 0:
            raise RefError('power of non-positive')
        return a ** b
    if k == 'powc':
        a = ev(n[1], e)
        c = float(n[2])
        if a == 0 and c <= 0:
            raise RefError('0 ** non-positive')
        if a < 0 and c != int(c):
            raise RefError('negative ** non-integer')
        return a ** c
    if k == 'exp':
        a = ev(n[1], e)
        if a > 700:
            raise RefError('overflow')
        return math.exp(a)
    if k == 'log':
        a = ev(n[1], e)
        if a <= 0:
            raise RefError('log of non-positive')
        return math.log(a)
    if k == 'logzero':
        a = ev(n[1], e)
        if a == 0:
            return 0.0
        if a < 0:
            raise RefError('logzero of negative')
        return math.log(a)
    if k == 'sin':
        return math.sin(ev(n[1], e))
    if k == 'cos':
        return math.cos(ev(n[1], e))
    if k == 'cdf':
        return 0.5 * math.erfc(-ev(n[1], e) / math.sqrt(2.0))
    if k == 'min':
        return min(ev(n[1], e), ev(n[2], e))
    if k == 'max':
        return max(ev(n[1], e), ev(n[2], e))
    if k in ('and', 'or'):
        a = ev(n[1], e)
        short = (not truth(a)) if k == 'and' else truth(a)
        if short:
            # whether the right operand is read when the left one decides is not specified: its
            # reads are recorded as "maybe"
            sub = Env(e.row, e.betas, e.pool, e.draws, e.missing)
            b = ev(n[2], sub)
            e.reads_maybe |= sub.reads | sub.reads_maybe
            e.maybe_missing = e.maybe_missing or sub.read_missing or sub.maybe_missing
        else:
            b = ev(n[2], e)
        if k == 'and':
            return 1.0 if (truth(a) and truth(b)) else 0.0
        return 1.0 if (truth(a) or truth(b)) else 0.0
    if k in ('==', '!=', '<', '<=', '>', '>='):
        a, b = ev(n[1], e), ev(n[2], e)
        r = {'==': a == b, '!=': a != b, '<': a < b, '<=': a <= b, '>': a > b, '>=': a >= b}[k]
        return 1.0 if r else 0.0
    if k == 'in':
        a = ev(n[1], e)
        return 1.0 if any(a == float(s) for s in n[2]) else 0.0
    if k == 'elem':
        key = ev(n[2], e)
        ik = int(key)
        d = {int(kk): vv for kk, vv in n[1].items()}
        if ik not in d:
            raise RefError('key absent')
        return ev(d[ik], e)
    if k == 'condsum':
        s = 0.0
        for cond, term in n[1]:
            if truth(ev(cond, e)):
                s += ev(term, e)
        return s
    if k == 'multsum':
        return sum(ev(t, e) for t in n[1])
    if k == 'linutil':
        s = 0.0
        for b, v in n[1]:
            e.reads.add(v)
            e.reads_lin.add(v)
            x = float(e.row[v])
            if e.missing is not None and x == e.missing:
                e.read_missing = True
            s += float(e.betas[b]) * x
        return s
    if k in ('loglogit', 'logit'):
        utils = {int(a): u for a, u in n[1].items()}
        avs = {int(a): u for a, u in n[2].items()} if n[2] is not None else None
        ch = int(ev(n[3], e))
        if ch not in utils:
            raise RefError('choice not among alternatives')
        vals = {}
        for a, u in utils.items():
            if avs is None or truth(ev(avs[a], e)):
                vals[a] = ev(u, e)
        if ch not in vals:
            raise RefError('chosen alternative unavailable')
        m = max(vals.values())
        lse = m + math.log(sum(math.exp(v - m) for v in vals.values()))
        r = vals[ch] - lse
        return r if k == 'loglogit' else math.exp(r)
    raise ValueError(f'unknown node {k}')


def collect(n, pool, kinds=None, out=None):
    """Names used in a tree: {'var': set, 'beta': set, 'draws': set}."""
    if out is None:
        out = {'var': set(), 'beta': set(), 'draws': set(), 'ops': set(), 'refs': set()}
    k = n[0]
    out['ops'].add(k)
    if k in ('var', 'beta'):
        out[k].add(n[1])
    elif k == 'draws':
        out['draws'].add((n[1], n[2]))
    elif k == 'num':
        pass
    elif k == 'ref':
        if n[1] not in out['refs']:
            out['refs'].add(n[1])
            collect(pool[n[1]], pool, kinds, out)
    elif k == 'in':
        collect(n[1], pool, kinds, out)
    elif k == 'powc':
        collect(n[1], pool, kinds, out)
    elif k == 'elem':
        for v in n[1].values():
            collect(v, pool, kinds, out)
        collect(n[2], pool, kinds, out)
    elif k == 'condsum':
        for c, t in n[1]:
            collect(c, pool, kinds, out)
            collect(t, pool, kinds, out)
    elif k == 'multsum':
        for t in n[1]:
            collect(t, pool, kinds, out)
    elif k == 'linutil':
        for b, v in n[1]:
            out['beta'].add(b)
            out['var'].add(v)
    elif k in ('loglogit', 'logit'):
        for v in n[1].values():
            collect(v, pool, kinds, out)
        if n[2] is not None:
            for v in n[2].values():
                collect(v, pool, kinds, out)
        collect(n[3], pool, kinds, out)
    else:
        for c in n[1:]:
            if isinstance(c, list):
                collect(c, pool, kinds, out)
    return out


class Builder:
    """AST -> biogeme expression objects, with deliberate sharing of Beta/Variable/sub-tree
    objects through the caches."""

    def __init__(self, beta_specs: dict, pool: list | None = None, share_elementary: bool = True):
        # beta_specs: name -> (value, lb, ub, status)
        self.beta_specs = beta_specs
        self.pool = pool or []
        self.share = share_elementary
        self.betas = {}
        self.vars = {}
        self.refs = {}
        self.draw_objs = {}

    def beta(self, name):
        from biogeme.expressions import Beta
        if self.share and name in self.betas:
            return self.betas[name]
        v, lb, ub, st = self.beta_specs[name]
        b = Beta(name, v, lb, ub, st)
        self.betas[name] = b
        return b

    def var(self, name):
        from biogeme.expressions import Variable
        if self.share and name in self.vars:
            return self.vars[name]
        v = Variable(name)
        self.vars[name] = v
        return v

    def build(self, n):
        import biogeme.expressions as ex
        k = n[0]
        b = self.build
        if k == 'num':
            return ex.Numeric(n[1])
        if k == 'var':
            return self.var(n[1])
        if k == 'beta':
            return self.beta(n[1])
        if k == 'ref':
            if n[1] not in self.refs:
                self.refs[n[1]] = b(self.pool[n[1]])
            return self.refs[n[1]]
        if k == 'draws':
            key = (n[1], n[2])
            if key not in self.draw_objs:
                self.draw_objs[key] = ex.bioDraws(n[1], n[2])
            return self.draw_objs[key]
        if k in ('+', '-', '*', '/'):
            # a numeric operand is handed over as a plain Python number when it is integer-valued (reflected
            # operators __radd__, __rsub__, ... on the left; implicit conversion on the right), as a Numeric
            # expression otherwise
            def operand(c):
                if c[0] == 'num' and float(c[1]) == int(c[1]):
                    return float(c[1]) if int(c[1]) % 2 else int(c[1])
                return b(c)
            left, right = operand(n[1]), operand(n[2])
            if not hasattr(left, 'get_signature') and not hasattr(right, 'get_signature'):
                left = b(n[1])
            if k == '+':
                return left + right
            if k == '-':
                return left - right
            if k == '*':
                return left * right
            return left / right
        if k == 'neg':
            return -b(n[1])
        if k == 'pow':
            return b(n[1]) ** b(n[2])
        if k == 'powc':
            return b(n[1]) ** n[2]
        if k == 'exp':
            return ex.exp(b(n[1]))
        if k == 'log':
            return ex.log(b(n[1]))
        if k == 'logzero':
            return ex.logzero(b(n[1]))
        if k == 'sin':
            return ex.sin(b(n[1]))
        if k == 'cos':
            return ex.cos(b(n[1]))
        if k == 'cdf':
            return ex.bioNormalCdf(b(n[1]))
        if k == 'min':
            return ex.bioMin(b(n[1]), b(n[2]))
        if k == 'max':
            return ex.bioMax(b(n[1]), b(n[2]))
        if k == 'and':
            return b(n[1]) & b(n[2])
        if k == 'or':
            return b(n[1]) | b(n[2])
        if k == '==':
            return b(n[1]) == b(n[2])
        if k == '!=':
            return b(n[1]) != b(n[2])
        if k == '<':
            return b(n[1]) < b(n[2])
        if k == '<=':
            return b(n[1]) <= b(n[2])
        if k == '>':
            return b(n[1]) > b(n[2])
        if k == '>=':
            return b(n[1]) >= b(n[2])
        if k == 'in':
            return ex.BelongsTo(b(n[1]), set(float(s) for s in n[2]))
        if k == 'elem':
            return ex.Elem({int(kk): b(vv) for kk, vv in n[1].items()}, b(n[2]))
        if k == 'condsum':
            def cond(i, c):
                # a constant condition is handed over as a plain Python number or boolean
                if c[0] == 'num' and float(c[1]) in (0.0, 1.0):
                    return ([1, 1.0, True] if float(c[1]) else [0, 0.0, False])[i % 3]
                return b(c)
            return ex.ConditionalSum([ex.ConditionalTermTuple(condition=cond(i, c), term=b(t))
                                      for i, (c, t) in enumerate(n[1])])
        if k == 'multsum':
            return ex.bioMultSum([b(t) for t in n[1]])
        if k == 'linutil':
            return ex.bioLinearUtility([ex.LinearTermTuple(beta=self.beta(bn), x=self.var(vn)) for bn, vn in n[1]])
        if k in ('loglogit', 'logit'):
            from biogeme import models
            utils = {int(a): b(u) for a, u in n[1].items()}
            # availabilities listed in another key order than the utilities (legal: both are dictionaries)
            def av_(c):
                # constant availabilities are handed over as plain Python numbers
                if c[0] == 'num' and float(c[1]) in (0.0, 1.0):
                    return int(c[1])
                return b(c)
            avs = {int(a): av_(n[2][a]) for a in reversed(list(n[2]))} if n[2] is not None else None
            ch = b(n[3])
            return models.loglogit(utils, avs, ch) if k == 'loglogit' else models.logit(utils, avs, ch)
        if k == 'mc':
            return ex.MonteCarlo(b(n[1]))
        if k == 'panel':
            return ex.PanelLikelihoodTrajectory(b(n[1]))
        raise ValueError(f'unknown node {k}')


def close(a: float, b: float, rel: float = 1e-10, abs_: float = 1e-12) -> bool:
    if math.isnan(a) or math.isnan(b):
        return False
    if a == b:
        return True
    return abs(a - b) <= abs_ + rel * max(abs(a), abs(b))
