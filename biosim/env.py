"""Process environment: hash seed re-exec, thread env, logging, seeds, clock seam,
tomlkit shim, cpu-count seam."""

from __future__ import annotations

import datetime as _dt
import logging
import os
import random
import sys
import types

from .core import stream_int, stream

ENV_FIXED = {
    'PYTHONHASHSEED': os.environ.get('BIOSIM_HASHSEED', '0'),
    'OMP_NUM_THREADS': '1', 'MKL_NUM_THREADS': '1', 'OPENBLAS_NUM_THREADS': '1',
    'TQDM_DISABLE': '1', 'PYTHONDONTWRITEBYTECODE': '1',
}


def ensure_env() -> None:
    """Re-exec once so that the interpreter itself runs under the fixed environment."""
    if os.environ.get('BIOSIM_ENV_READY') == '1':
        return
    env = dict(os.environ)
    env.update(ENV_FIXED)
    env['BIOSIM_ENV_READY'] = '1'
    src = os.environ.get('BIOSIM_SRC')
    if src:
        env['PYTHONPATH'] = src + os.pathsep + env.get('PYTHONPATH', '')
    os.execve(sys.executable, [sys.executable, '-m', 'biosim'] + sys.argv[1:], env)


class SimClock:
    def __init__(self):
        self.t = _dt.datetime(2030, 1, 1, 12, 0, 0)
        self.frozen = None

    def now(self):
        return self.t

    def advance(self, seconds: float):
        self.t = self.t + _dt.timedelta(seconds=seconds)


CLOCK = SimClock()


class SimDateTime(_dt.datetime):
    @classmethod
    def now(cls, tz=None):
        return CLOCK.now()

    @classmethod
    def today(cls):
        return CLOCK.now()


class SimDate(_dt.date):
    @classmethod
    def today(cls):
        return CLOCK.now().date()


_installed = False


def import_library():
    """Imports biogeme from /repo's working tree (or BIOSIM_SRC) and takes the seams that
    are module attributes."""
    global _installed
    if _installed:
        return
    logging.disable(logging.CRITICAL)
    import warnings
    warnings.filterwarnings('ignore')
    import numpy as np  # noqa
    np.seterr(all='ignore')
    import biogeme.biogeme as bb
    import biogeme.parameters as bp
    import biogeme.results as br
    import biogeme.version as bv
    bb.datetime = SimDateTime
    bp.datetime = SimDateTime
    br.datetime = types.SimpleNamespace(datetime=SimDateTime, timedelta=_dt.timedelta,
                                        date=SimDate, time=_dt.time)
    bv.versionDate = '2030-01-01'
    try:
        import biogeme.tools.time as bt
        bt.time = types.SimpleNamespace(time=lambda: CLOCK.now().timestamp())
    except Exception:
        pass
    install_tomlkit_shim()
    _installed = True


def install_tomlkit_shim():
    """tomlkit >= 0.13 refuses multi-line comments, which Parameters.dump_file produces;
    the repo declares tomlkit>=0.12.5. Restore the old behaviour of Item.comment."""
    import tomlkit.items as ti
    if getattr(ti.Item, '_biosim_shim', False):
        return

    def comment(self, comment: str):
        if not comment.strip().startswith('#'):
            comment = '# ' + comment
        self._trivia.comment_ws = ' '
        self._trivia.comment = comment
        return self

    ti.Item.comment = comment
    ti.Item._biosim_shim = True


def set_cpu_count(n: int):
    import biogeme.biogeme as bb
    bb.mp = types.SimpleNamespace(cpu_count=lambda: n)


def seed_process(spec: dict, lifetime: int) -> None:
    """Called at the start of every simulated process lifetime."""
    import numpy as np
    seed = spec['run_seed']
    np.random.seed(stream_int(seed, f'np/{lifetime}'))
    random.seed(stream_int(seed, f'py/{lifetime}'))
    CLOCK.t = _dt.datetime(2030, 1, 1, 12, 0, 0) + _dt.timedelta(
        seconds=stream(seed, f'clk/{lifetime}').randrange(0, 86400 * 30))
    set_cpu_count(1 + stream_int(seed, 'cpu') % 6)
