"""W-eval: histories of evaluations over shared, mutable expression nodes against the reference
interpreter (C01, history clause + workload oracle), with planted specification faults and
missing-data cells (C12, profile 'faults')."""

from __future__ import annotations

import math
import random

from .. import ref
from ..core import fhex
from . import evalbase as eb

name = 'eval'


def RAISE_ORACLE(profile):
    return 'I12.raise' if profile == 'faults' else 'I01.raise'


FAULT_KINDS = ['empty_avail', 'bad_avail_keys_kept', 'nan_inplace', 'hess_without_grad_kept', 'pandas_dropped_column', 'pandas_added_column', 'absent_column', 'dup_name', 'draws_outside', 'rv_outside', 'hess_without_grad', 'bad_choice_key',
               'bad_avail_keys', 'nan_data', 'text_data', 'empty_data', 'panel_outside', 'nests_overlap',
               'nests_outside', 'nests_overlap_far', 'panel_outside_mc', 'missing_read', 'missing_unread',
               'mc_catalog_switch', 'cnl_outside', 'catalog_entry_fault', 'column_renamed_before_simulate']


def make_config(rng, profile, tier):
    n = rng.choice([1, 2, 3, 5, 8])
    seed = rng.randrange(1 << 30)
    table = eb.make_table(seed, n)
    rows = eb.rows_of(table)
    betas = dict(eb.BETA_VALUES)
    pool = []
    for _ in range(rng.randrange(0, 4)):
        pool.append(eb.gen_valid(rng, pool, rows, betas, rng.randrange(1, 3)))
    formulas = [eb.gen_valid(rng, pool, rows, betas, rng.randrange(1, 4)) for _ in range(rng.randrange(2, 6))]
    return {'N': n, 'data_seed': seed, 'order_seed': rng.randrange(1 << 30), 'pool': pool, 'formulas': formulas,
            'threads': rng.choice([1, 2, 3]), 'missing': rng.choice([99999, 99999, -55, 7777]),
            'beta_bounds': eb.gen_bounds(rng)}


def make_ops(rng, cfg, profile, tier):
    ops = []
    nf = len(cfg['formulas'])
    for _ in range(rng.randrange(4, 18)):
        r = rng.random()
        if profile == 'faults' and r < 0.3:
            ops.append({'op': 'FAULT', 'a': [rng.choice(FAULT_KINDS), rng.randrange(64), rng.randrange(1 << 16),
                                             rng.choice(['biogeme', 'get_value_c', 'derivatives'])]})
            continue
        r = rng.random()
        if r < 0.3:
            ops.append({'op': 'EVAL_C', 'a': [rng.randrange(nf), rng.randrange(2), rng.randrange(4), rng.random() < 0.3]})
        elif r < 0.38:
            ops.append({'op': 'EVAL_D', 'a': [rng.randrange(nf), rng.randrange(2), rng.randrange(4)]})
        elif r < 0.4:
            ops.append({'op': 'CREATE_FUNCTION', 'a': [rng.randrange(nf), rng.randrange(2), rng.randrange(4), rng.randrange(4)]})
        elif r < 0.5:
            ops.append({'op': 'EVAL_PY', 'a': [rng.randrange(1 << 16)]})
        elif r < 0.65:
            k = rng.randrange(1, min(3, nf) + 1)
            ops.append({'op': 'MAKE_BIOGEME', 'a': [sorted(rng.sample(range(nf), k)), rng.randrange(2),
                                                    rng.choice([1, 2, 3, 7])]})
        elif r < 0.8:
            ops.append({'op': 'SIMULATE', 'a': [rng.randrange(8), rng.randrange(4)]})
        elif r < 0.83:
            ops.append({'op': 'LL', 'a': [rng.randrange(8), rng.randrange(4)]})
        elif r < 0.86:
            ops.append({'op': 'EVAL_BOUND', 'a': [rng.randrange(8), rng.randrange(4)]})
        elif r < 0.91:
            ops.append({'op': 'CALC_NULL', 'a': [rng.randrange(8), rng.random() < 0.5]})
        elif r < 0.94:
            ops.append({'op': 'ADD_COLUMN', 'a': [rng.randrange(nf), rng.randrange(2)]})
        elif r < 0.955:
            ops.append({'op': 'REORDER_COLUMNS', 'a': [rng.randrange(2), rng.randrange(1 << 16)]})
        elif r < 0.97:
            ops.append({'op': 'CHANGE_INIT', 'a': [rng.choice(['bf0', 'bf1']), rng.choice([0.0, 0.0, 0.75, -2.0, 0.31, -1.17])]})
        elif r < 0.985:
            ops.append({'op': 'COPY_EVAL', 'a': [rng.randrange(nf), rng.randrange(2)]})
        else:
            ops.append({'op': 'NEW_FORMULA', 'a': [rng.randrange(1 << 30)]})
    if profile == '' and rng.random() < 0.1:
        ops.insert(rng.randrange(len(ops) + 1), {'op': 'CDF_TAIL', 'a': [rng.choice([6.0, 6.5, 7.25, 9.0, 12.0, -6.5, -9.0])]})
    return ops


def died_is_outcome(spec, res):
    return False


def pinned_ops(spec):
    return set()


def simplifications(spec):
    cfg = spec['config']
    if cfg['N'] > 1:
        yield dict(spec, config=dict(cfg, N=1))


def nontrivial(spec, res):
    p = res.get('probes', {})
    if spec.get('profile') == 'faults':
        return p.get('valid evaluation after a fault', 0) >= 1
    return p.get('evaluation of a formula sharing nodes with an earlier one', 0) >= 2


class Session:
    def __init__(self, ctx):
        from .. import env
        env.import_library()
        import numpy as np
        import biogeme.database as db
        self.np = np
        self.ctx = ctx
        self.cfg = ctx.config
        self.faults = ctx.profile == 'faults'
        t0 = eb.make_table(self.cfg['data_seed'], self.cfg['N'])
        t1 = eb.make_table(self.cfg['data_seed'], self.cfg['N'], order_seed=self.cfg['order_seed'])
        self.tables = [t0, t1]
        self.rows = eb.rows_of(t0)
        self.dbs = [db.Database('e0', t0.copy()), db.Database('e1', t1.copy())]
        self.pool = list(self.cfg['pool'])
        self.formulas = list(self.cfg['formulas'])
        eb.CURRENT_BOUNDS = dict(self.cfg.get('beta_bounds') or {})
        if any(lo is not None and lo > eb.BETA_VALUES[n_] or hi is not None and hi < eb.BETA_VALUES[n_]
               for n_, (lo, hi) in eb.CURRENT_BOUNDS.items()):
            ctx.probe('a starting value outside its own bounds')
        self.builder = ref.Builder(eb.beta_specs(), pool=self.pool, share_elementary=True)
        self.exprs = {}          # formula index -> biogeme expression (built once: shared objects)
        self.biogemes = []       # dicts: b, idx list, dbi
        self.evaluated = set()
        self.extra_cols = [[], []]
        self.poisoned = False
        self.col_history = []    # (dbi, formula index, column name): replayed by a restarted process
        self.fault_seen = False
        self.carry_flag = None
        carry = ctx.carry
        if carry:
            self.formulas = list(carry['formulas'])
            self.fault_seen = carry.get('fault_seen', False)
            self.fixed_now = dict(carry.get('fixed_now', {}))
            for nm_, val_ in self.fixed_now.items():
                self.builder.beta_specs[nm_] = (val_, None, None, 1)
            ctx.count('restarts')
            for dbi, fi, colname in carry.get('col_history', []):
                self.dbs[dbi].add_column(self.expr(fi), colname)
                self.extra_cols[dbi].append(colname)
                self.col_history.append((dbi, fi, colname))
            flag = carry.get('flag')
            if flag and flag.get('after_poison'):
                self.recover_after_restart(flag['after_poison'])

    def export_carry(self):
        return {'formulas': self.formulas, 'col_history': self.col_history, 'fault_seen': self.fault_seen,
                'flag': self.carry_flag, 'fixed_now': getattr(self, 'fixed_now', {})}

    def recover_after_restart(self, what):
        """Bounded liveness: once faults have stopped (new process), every valid specification of the
        session evaluates again, to its reference value."""
        betas = {**eb.BETA_VALUES, **getattr(self, 'fixed_now', {})}
        free = {n: v for n, v in betas.items() if not n.startswith('bf')}
        n_ok = 0
        for fi in range(len(self.formulas)):
            for dbi in (0, 1):
                want = self.valid_at(fi, betas, dbi)
                if want is None:
                    continue
                try:
                    got = self.expr(fi).get_value_c(database=self.dbs[dbi], betas=free, aggregation=False,
                                                    prepare_ids=True)
                except Exception as e:
                    from ..core import _classify_exception
                    where, text = _classify_exception(e)
                    if where == 'harness':
                        raise
                    self.ctx.fail('I12.2r', f'after a process restart following [{what}], valid formula {fi} is refused: '
                                            f'{type(e).__name__}: {str(e)[:200]}')
                self.cmp(f'formula {fi} after a process restart', got, want, oracle='I12.2r')
                n_ok += 1
        self.ctx.probe('recovery after restart checked', n_ok)

    def expr(self, i):
        if i not in self.exprs:
            self.exprs[i] = self.builder.build(self.formulas[i])
        return self.exprs[i]

    def betas_at(self, k):
        b = dict(eb.BETA_VALUES)
        b.update(getattr(self, 'fixed_now', {}))
        for j, nm in enumerate(['b0', 'b1', 'b2', 'b3']):
            b[nm] = round(b[nm] + 0.3 * k - 0.2 * j * (k % 2), 4)
        return b

    def want(self, i, betas, dbi=0):
        return eb.ref_rows(self.formulas[i], self.pool, self.rows_for(dbi), betas)

    def rows_for(self, dbi):
        return eb.rows_of(self.dbs[dbi].data)

    def valid_at(self, i, betas, dbi=0):
        try:
            return self.want(i, betas, dbi)
        except (ref.RefError, OverflowError, ZeroDivisionError, ValueError):
            return None

    def cmp(self, what, got, want, oracle='I01.value'):
        got = [float(v) for v in (got if hasattr(got, '__len__') else [got])]
        if len(got) != len(want):
            self.ctx.fail(oracle, f'{what}: {len(got)} values for {len(want)} rows')
        for r, (g, w) in enumerate(zip(got, want)):
            if not ref.close(g, w, 1e-10, 1e-12):
                self.ctx.fail(oracle, f'{what}: row {r}: engine {g!r}, mathematical value {w!r}')

    def lib(self, what, fn, oracle='I01.raise'):
        """An evaluation of a valid formula must return."""
        try:
            return fn()
        except Exception as e:
            from ..core import _classify_exception
            where, text = _classify_exception(e)
            if where == 'harness':
                raise
            self.ctx.violate(oracle, f'{what} raised {type(e).__name__}: {str(e)[:300]}')
            return None

    def sharing_probe(self, i):
        names = ref.collect(self.formulas[i], self.pool)
        key = frozenset(names['var'] | names['beta'] | {f'ref{r}' for r in names['refs']})
        if any(key & k for k in self.evaluated):
            self.ctx.probe('evaluation of a formula sharing nodes with an earlier one')
        self.evaluated.add(key)

    # -- operations -----------------------------------------------------------------------
    def apply(self, i, op):
        ctx = self.ctx
        kind, a = op['op'], op['a']
        ctx.count('op:' + kind)
        np = self.np
        if kind == 'EVAL_C':
            fi, dbi, k, agg = a
            fi %= len(self.formulas)
            betas = self.betas_at(k)
            want = self.valid_at(fi, betas, dbi)
            if want is None:
                ctx.log(kind, 'skip-domain')
            else:
                self.sharing_probe(fi)
                free = {n: v for n, v in betas.items() if not n.startswith('bf')}
                got = self.lib(f'get_value_c of formula {fi}', lambda: self.expr(fi).get_value_c(
                    database=self.dbs[dbi], betas=free, aggregation=agg, prepare_ids=True))
                if got is not None:
                    if agg:
                        self.cmp(f'formula {fi} aggregated', [got], [sum(want)])
                    else:
                        self.cmp(f'formula {fi}', got, want)
                    self._after_valid()
                ctx.log(kind, fi, dbi, k)
        elif kind == 'CREATE_FUNCTION':
            # the formula wrapped as a function of the vector of its free parameters (create_function); the formula is then
            # numbered again on the same table (prepare) and the function called at another point: it evaluates at the
            # point it is given
            fi, dbi, k1, k2 = a
            fi %= len(self.formulas)
            b1, b2 = self.betas_at(k1), self.betas_at(k2 + 1)
            w1, w2 = self.valid_at(fi, b1, dbi), self.valid_at(fi, b2, dbi)
            # a fresh copy of the formula (own parameter objects): its numbering is changed on purpose
            bld = ref.Builder(dict(self.builder.beta_specs), pool=self.pool, share_elementary=True)
            e = bld.build(self.formulas[fi])
            from biogeme.expressions import TypeOfElementaryExpression as _T
            free_names = sorted(e.set_of_elementary_expression(_T.FREE_BETA))
            if w1 is None or w2 is None or not free_names:
                ctx.log(kind, 'skip-domain')
            else:
                fct = self.lib('create_function', lambda: e.create_function(database=self.dbs[dbi], number_of_draws=10,
                                                                             gradient=False, hessian=False, bhhh=False))
                if fct is not None:
                    o1 = self.lib('function created from the formula, first call', lambda: fct([b1[n_] for n_ in free_names]))
                    if o1 is not None:
                        self.cmp(f'function created from formula {fi}', [float(getattr(o1, 'function', o1))], [sum(w1)])
                    self.lib('prepare', lambda: e.prepare(self.dbs[dbi], 10))
                    o2 = self.lib('function created from the formula, called after the formula was numbered again',
                                  lambda: fct([b2[n_] for n_ in free_names]))
                    if o2 is not None:
                        self.cmp(f'function created from formula {fi}, after the formula was numbered again',
                                 [float(getattr(o2, 'function', o2))], [sum(w2)])
                    ctx.probe('function created from a formula, called before and after a renumbering')
                ctx.log(kind, fi, dbi)
        elif kind == 'EVAL_D':
            fi, dbi, k = a
            fi %= len(self.formulas)
            betas = self.betas_at(k)
            want = self.valid_at(fi, betas, dbi)
            ops_used = ref.collect(self.formulas[fi], self.pool)['ops']
            if want is None or 'in' in ops_used:
                # (the engine documents set membership as not differentiable)
                ctx.log(kind, 'skip-domain')
            else:
                self.sharing_probe(fi)
                free = {n: v for n, v in betas.items() if not n.startswith('bf')}
                out = self.lib(f'get_value_and_derivatives of formula {fi}',
                               lambda: self.expr(fi).get_value_and_derivatives(
                                   betas=free, database=self.dbs[dbi], aggregation=False, prepare_ids=True,
                                   gradient=True, hessian=False, bhhh=False))
                if out is not None:
                    self.cmp(f'formula {fi} (value returned with derivatives)', list(out.functions), want)
                    self._after_valid()
                ctx.log(kind, fi, dbi, k)
        elif kind == 'EVAL_PY':
            rng = random.Random(a[0])
            g = eb.Gen(rng, [], allow_refs=False)
            row0 = self.rows[a[0] % len(self.rows)]

            def constantify(n):
                # a formula without variables: every variable replaced by its value on one row
                if n[0] == 'var':
                    return ['num', row0[n[1]]]
                if n[0] == 'linutil':
                    return ['multsum', [['*', ['beta', b_], ['num', row0[v_]]] for b_, v_ in n[1]]]
                if n[0] == 'elem':
                    return ['elem', {k_: constantify(v_) for k_, v_ in n[1].items()}, constantify(n[2])]
                if n[0] == 'condsum':
                    return ['condsum', [[constantify(c_), constantify(t_)] for c_, t_ in n[1]]]
                if n[0] == 'multsum':
                    return ['multsum', [constantify(t_) for t_ in n[1]]]
                if n[0] in ('loglogit', 'logit'):
                    return [n[0], {k_: constantify(v_) for k_, v_ in n[1].items()},
                            None if n[2] is None else {k_: constantify(v_) for k_, v_ in n[2].items()}, constantify(n[3])]
                if n[0] == 'in':
                    return ['in', constantify(n[1]), n[2]]
                if n[0] == 'powc':
                    return ['powc', constantify(n[1]), n[2]]
                return [n[0]] + [constantify(c_) if isinstance(c_, list) else c_ for c_ in n[1:]]
            ast = None
            for _ in range(20):
                cand = constantify(g.small(rng.randrange(1, 4)))
                try:
                    w = ref.ev(cand, ref.Env({}, eb.BETA_VALUES))
                except (ref.RefError, OverflowError, ZeroDivisionError, ValueError, KeyError):
                    continue
                if math.isfinite(w) and abs(w) < 1e6:
                    ast = cand
                    break
            if ast is None:
                ctx.log(kind, 'skip')
            else:
                b = ref.Builder(eb.beta_specs(), share_elementary=True)
                e = b.build(ast)
                try:
                    v = float(e.get_value())
                except Exception as ex:   # the pure-Python evaluator does not accept every operator
                    ctx.count('py_evaluator_refused')
                    ctx.log(kind, 'refused', type(ex).__name__)
                else:
                    if not ref.close(v, w, 1e-10, 1e-12):
                        ctx.fail('I01.py', f'pure-Python evaluator: {v!r}, mathematical value {w!r} for {ast}')
                    v2 = self.lib('get_value_c of a variable-free formula',
                                  lambda: float(e.get_value_c(prepare_ids=True)))
                    if v2 is not None and not ref.close(v2, w, 1e-10, 1e-12):
                        ctx.fail('I01.value', f'engine {v2!r}, mathematical value {w!r} for {ast}')
                    # the same object over the rows of a table (one value per row), then on its own again
                    d_ = self.dbs[a[0] % 2]
                    v3 = self.lib('get_value_c of a variable-free formula over a table',
                                  lambda: [float(z_) for z_ in e.get_value_c(database=d_, prepare_ids=True)])
                    if v3 is not None and (len(v3) != len(self.rows) or any(not ref.close(z_, w, 1e-10, 1e-12) for z_ in v3)):
                        ctx.fail('I01.value', f'engine over a table of {len(self.rows)} rows: {v3!r}, mathematical value {w!r} '
                                              f'on every row for {ast}')
                    # the formula written with every occurrence of a parameter as an object of its own; one parameter is then
                    # given another value by name: every occurrence takes it, on both evaluation paths
                    used_b = sorted(n_ for n_ in ref.collect(ast, [])['beta'] if not n_.startswith('bf'))
                    if used_b:
                        tgt = used_b[a[0] % len(used_b)]
                        newv = round(eb.BETA_VALUES[tgt] + 0.35, 4)
                        try:
                            w_new = ref.ev(ast, ref.Env({}, {**eb.BETA_VALUES, tgt: newv}))
                        except (ref.RefError, OverflowError, ZeroDivisionError, ValueError, KeyError):
                            w_new = None
                        if w_new is not None and math.isfinite(w_new) and abs(w_new) < 1e6:
                            e2 = ref.Builder(eb.beta_specs(), share_elementary=False).build(ast)
                            e2.change_init_values({tgt: newv})
                            try:
                                vp_ = float(e2.get_value())
                            except Exception:
                                vp_ = None
                            if vp_ is not None and not ref.close(vp_, w_new, 1e-10, 1e-12):
                                ctx.fail('I01.py', f'pure-Python evaluator after change_init_values({{{tgt!r}: {newv}}}) on a formula '
                                                   f'whose occurrences of {tgt} are distinct objects: {vp_!r}, mathematical value '
                                                   f'{w_new!r} for {ast}')
                            vc_ = self.lib('get_value_c after change_init_values on distinct objects of one name',
                                           lambda: float(e2.get_value_c(prepare_ids=True)))
                            if vc_ is not None and not ref.close(vc_, w_new, 1e-10, 1e-12):
                                ctx.fail('I01.value', f'engine {vc_!r} after change_init_values({{{tgt!r}: {newv}}}), mathematical '
                                                      f'value {w_new!r} for {ast}')
                            ctx.probe('by-name value change on distinct parameter objects of one name')
                    v4 = self.lib('get_value_c of a variable-free formula, after an evaluation over a table',
                                  lambda: float(e.get_value_c(prepare_ids=True)))
                    if v4 is not None and not ref.close(v4, w, 1e-10, 1e-12):
                        ctx.fail('I01.value', f'engine {v4!r} after an evaluation of the same object over a table, '
                                              f'mathematical value {w!r} for {ast}')
                    ctx.log(kind, fhex(v))
        elif kind == 'MAKE_BIOGEME':
            idxs, dbi, T = a
            idxs = [x % len(self.formulas) for x in idxs]
            betas = self.betas_at(0) if False else {**eb.BETA_VALUES, **getattr(self, 'fixed_now', {})}
            ok = all(self.valid_at(x, betas, dbi) is not None for x in idxs)
            if not ok:
                ctx.log(kind, 'skip-domain')
            else:
                import biogeme.biogeme as bio
                from biogeme.parameters import Parameters
                p = Parameters()
                p.set_value('number_of_threads', T)
                p.set_value('save_iterations', False)
                p.set_value('missing_data', self.cfg['missing'])
                forms = {('log_like' if j == 0 else f'f{x}'): self.expr(x) for j, x in enumerate(idxs)}
                b = self.lib('BIOGEME(...) on valid formulas', lambda: bio.BIOGEME(self.dbs[dbi], forms, parameters=p),
                             oracle='I12.reject')
                if b is not None:
                    self.biogemes.append({'b': b, 'idx': idxs, 'dbi': dbi, 'keys': list(forms)})
                    for x in idxs:
                        self.sharing_probe(x)
                    self._after_valid()
                ctx.log(kind, idxs, dbi, T)
        elif kind == 'CHANGE_INIT':
            # a fixed parameter is given another value (0 included) in every formula of the session
            nm_, val_ = a
            self.fixed_now = dict(getattr(self, 'fixed_now', {}), **{nm_: val_})
            for e_ in self.exprs.values():
                if int(abs(val_) * 100) % 2 == 0:
                    e_.change_init_values({nm_: val_})
                else:
                    # the other way of giving a (fixed) parameter a value by name
                    e_.fix_betas({nm_: val_})
                    ctx.probe('fixed parameter given another value through fix_betas')
            self.builder.beta_specs[nm_] = (val_, None, None, 1)
            if nm_ in self.builder.betas and self.builder.betas[nm_].initValue != val_:
                # the Beta object exists (it was built for some formula) but the library did not give it the value:
                # either no built formula contains it any more, or change_init_values ignored the request - the
                # evaluations that follow tell
                if not any(nm_ in ref.collect(self.formulas[i_], self.pool)['beta'] or
                           any(nm_ == b_ for b_, _ in self._linutil_pairs(self.formulas[i_])) for i_ in self.exprs):
                    self.builder.betas[nm_].initValue = val_
            self.biogemes = []      # objects built earlier hold the value the parameter had at construction
            ctx.log(kind, nm_, val_)
        elif kind == 'COPY_EVAL':
            # a deep copy of a formula, with one variable renamed, used next to its original in one formula
            import copy
            fi, dbi = a
            fi %= len(self.formulas)
            betas = {**eb.BETA_VALUES, **getattr(self, 'fixed_now', {})}

            def subst(n):
                if n[0] == 'var' and n[1] == 'c0':
                    return ['var', 'c0_alt']
                if n[0] == 'ref':
                    return subst(self.pool[n[1]])
                if n[0] == 'linutil':
                    return ['linutil', [[b_, 'c0_alt' if v_ == 'c0' else v_] for b_, v_ in n[1]]]
                if n[0] == 'elem':
                    return ['elem', {k_: subst(v_) for k_, v_ in n[1].items()}, subst(n[2])]
                if n[0] == 'condsum':
                    return ['condsum', [[subst(c_), subst(t_)] for c_, t_ in n[1]]]
                if n[0] == 'multsum':
                    return ['multsum', [subst(t_) for t_ in n[1]]]
                if n[0] in ('loglogit', 'logit'):
                    return [n[0], {k_: subst(v_) for k_, v_ in n[1].items()},
                            None if n[2] is None else {k_: subst(v_) for k_, v_ in n[2].items()}, subst(n[3])]
                if n[0] in ('in', 'powc'):
                    return [n[0], subst(n[1]), n[2]]
                return [n[0]] + [subst(c_) if isinstance(c_, list) else c_ for c_ in n[1:]]
            ast2 = ['+', self.formulas[fi], ['*', ['num', 2.0], subst(self.formulas[fi])]]
            try:
                want = eb.ref_rows(ast2, self.pool, self.rows_for(dbi), betas)
            except (ref.RefError, OverflowError, ZeroDivisionError, ValueError):
                want = None
            if want is None or 'c0_alt' not in self.dbs[dbi].data.columns:
                ctx.log(kind, 'skip-domain')
            else:
                b_ = ref.Builder(dict(self.builder.beta_specs), pool=self.pool, share_elementary=True)
                original = b_.build(self.formulas[fi])
                if fi % 2:
                    twin = copy.deepcopy(original)
                else:
                    # the copy written out again, every occurrence of a variable or parameter being an object of its own
                    twin = ref.Builder(dict(self.builder.beta_specs), pool=self.pool, share_elementary=False).build(self.formulas[fi])
                    ctx.probe('renaming on a formula whose elementary expressions are distinct objects of one name')
                twin.rename_elementary(['c0'], suffix='_alt')
                both = original + 2 * twin
                free = {n_: v_ for n_, v_ in betas.items() if not n_.startswith('bf')}
                got = self.lib(f'get_value_c of formula {fi} plus twice its renamed deep copy',
                               lambda: both.get_value_c(database=self.dbs[dbi], betas=free, aggregation=False, prepare_ids=True))
                if got is not None:
                    self.cmp(f'formula {fi} + 2 x (its deep copy with c0 renamed c0_alt)', got, want)
                    ctx.probe('deep copy used next to its original')
            ctx.log(kind, fi)
        elif kind == 'REORDER_COLUMNS':
            dbi = a[0]
            cols = list(self.dbs[dbi].data.columns)
            random.Random(a[1]).shuffle(cols)
            # the user re-arranges the columns of the table (same number of columns)
            self.dbs[dbi].data = self.dbs[dbi].data[cols]
            self.biogemes = [r for r in self.biogemes if r['dbi'] != dbi]   # assumption A3
            ctx.log(kind, dbi)
        elif kind == 'EVAL_BOUND':
            # a formula bound to a live BIOGEME object is evaluated on the OTHER table with prepare_ids=True
            # (temporary numbering, then restored), then on its own table relying on the restored numbering
            if not self.biogemes:
                ctx.log(kind, 'skip')
            else:
                rec = self.biogemes[a[0] % len(self.biogemes)]
                fi, dbi = rec['idx'][0], rec['dbi']
                betas = {**eb.BETA_VALUES, **getattr(self, 'fixed_now', {})}
                w_other = self.valid_at(fi, betas, 1 - dbi)
                w_own = self.valid_at(fi, betas, dbi)
                if w_other is None or w_own is None:
                    ctx.log(kind, 'skip-domain')
                else:
                    e = self.expr(fi)
                    for x in rec['idx']:
                        self.expr(x).set_id_manager(rec['b'].id_manager)   # the numbering of its own object
                    got = self.lib('get_value_c(prepare_ids=True) of a bound formula on another table',
                                   lambda: e.get_value_c(database=self.dbs[1 - dbi], aggregation=False, prepare_ids=True))
                    if got is not None:
                        self.cmp(f'bound formula {fi} on the other table', got, w_other)
                        free0 = {n_: v_ for n_, v_ in betas.items() if not n_.startswith('bf')}
                        got2 = self.lib('get_value_c(prepare_ids=False) of a bound formula after a temporary renumbering',
                                        lambda: e.get_value_c(database=self.dbs[dbi], betas=free0, aggregation=False,
                                                              prepare_ids=False))
                        if got2 is not None:
                            self.cmp(f'bound formula {fi} on its own table with the restored numbering', got2, w_own)
                            ctx.probe('evaluation relying on a restored numbering')
                        # then with dictionaries: a full one, then a partial one (names that are not given take their
                        # own value, not the one of the previous call)
                        bk = self.betas_at(1 + a[1] % 3)
                        w_full = self.valid_at(fi, bk, dbi)
                        part = {n_: v_ for n_, v_ in list(self.betas_at(2).items())[:1 + a[1] % 2] if not n_.startswith('bf')}
                        w_part = self.valid_at(fi, {**betas, **part}, dbi)
                        if w_full is not None and w_part is not None:
                            g3 = self.lib('get_value_c(betas=full, prepare_ids=False)', lambda: e.get_value_c(
                                database=self.dbs[dbi], betas={n_: v_ for n_, v_ in bk.items() if not n_.startswith('bf')},
                                aggregation=False, prepare_ids=False))
                            if g3 is not None:
                                self.cmp(f'bound formula {fi} at named values', g3, w_full)
                                g4 = self.lib('get_value_c(betas=partial, prepare_ids=False)', lambda: e.get_value_c(
                                    database=self.dbs[dbi], betas=part, aggregation=False, prepare_ids=False))
                                if g4 is not None:
                                    self.cmp(f'bound formula {fi} with a partial dictionary after a call at other values',
                                             g4, w_part)
                    ctx.log(kind, fi)
        elif kind in ('SIMULATE', 'LL', 'CALC_NULL'):
            if not self.biogemes:
                ctx.log(kind, 'skip')
            else:
                rec = self.biogemes[a[0] % len(self.biogemes)]
                self._use_biogeme(kind, rec, a)
        elif kind == 'ADD_COLUMN':
            fi, dbi = a
            fi %= len(self.formulas)
            betas = {**eb.BETA_VALUES, **getattr(self, 'fixed_now', {})}
            want = self.valid_at(fi, betas, dbi)
            colname = f'n{len(self.extra_cols[dbi])}'
            if want is None:
                ctx.log(kind, 'skip-domain')
            else:
                self.sharing_probe(fi)
                got = self.lib(f'add_column with formula {fi}', lambda: self.dbs[dbi].add_column(self.expr(fi), colname))
                if got is not None:
                    self.cmp(f'column computed from formula {fi}', list(got), want)
                    self.extra_cols[dbi].append(colname)
                    self.col_history.append((dbi, fi, colname))
                    self._after_valid()
                    # a live BIOGEME keeps the table it was given at construction (assumption A3)
                    self.biogemes = [r for r in self.biogemes if r['dbi'] != dbi]
                ctx.log(kind, fi, dbi)
        elif kind == 'NEW_FORMULA':
            rng = random.Random(a[0])
            ast = eb.gen_valid(rng, self.pool, self.rows, dict(eb.BETA_VALUES), rng.randrange(1, 4))
            self.formulas.append(ast)
            ctx.log(kind, len(self.formulas) - 1)
        elif kind == 'CDF_TAIL':
            import biogeme.expressions as ex
            x = a[0]
            v = self.lib('bioNormalCdf of a constant', lambda: float(ex.bioNormalCdf(ex.Numeric(x)).get_value_c(prepare_ids=True)))
            if v is not None:
                w = 0.5 * math.erfc(-x / math.sqrt(2.0))
                if not ref.close(v, w, 1e-10, 1e-14):
                    q = 0.5 * math.erfc(abs(x) / math.sqrt(2.0))
                    if x >= 6 and abs(v - (1.0 + q)) <= 1e-6 * q + 1e-16:
                        ctx.violate('I01.cdf_tail', f'bioNormalCdf({x}) = {v!r} (> 1: 1+Q(x) instead of 1-Q(x)), '
                                                    f'mathematical value {w!r}')
                    else:
                        ctx.fail('I01.value', f'bioNormalCdf({x}) = {v!r}, mathematical value {w!r}')
            ctx.log(kind, x)
        elif kind == 'FAULT':
            from . import evalfaults
            evalfaults.apply_fault(self, a)
        else:
            raise RuntimeError(kind)
        ctx.state([kind, len(self.formulas), len(self.biogemes), [len(x) for x in self.extra_cols], self.poisoned])

    def _linutil_pairs(self, n):
        out = []
        if isinstance(n, list) and n and isinstance(n[0], str):
            if n[0] == 'linutil':
                out += n[1]
            elif n[0] == 'ref':
                out += self._linutil_pairs(self.pool[n[1]])
            else:
                for c_ in n[1:]:
                    if isinstance(c_, list):
                        out += self._linutil_pairs(c_)
                    elif isinstance(c_, dict):
                        for v_ in c_.values():
                            out += self._linutil_pairs(v_)
        return out

    def _after_valid(self):
        if self.fault_seen:
            self.ctx.probe('valid evaluation after a fault')

    def _use_biogeme(self, kind, rec, a):
        ctx = self.ctx
        b = rec['b']
        dbi = rec['dbi']
        if kind == 'SIMULATE':
            betas = self.betas_at(a[1])
            wants = [self.valid_at(x, betas, dbi) for x in rec['idx']]
            if any(w is None for w in wants):
                ctx.log(kind, 'skip-domain')
                return
            vals = {n: betas[n] for n in b.free_beta_names}
            keys = list(vals)
            random.Random(a[1]).shuffle(keys)
            sim = self.lib('simulate on a live BIOGEME object', lambda: b.simulate({n: vals[n] for n in keys}))
            if sim is not None:
                for key, x, w in zip(rec['keys'], rec['idx'], wants):
                    self.cmp(f'simulate: formula {x}', sim[key].to_list(), w)
                self._after_valid()
            ctx.log(kind, rec['idx'])
        elif kind == 'LL':
            betas = self.betas_at(a[1])
            w = self.valid_at(rec['idx'][0], betas, dbi)
            if w is None:
                ctx.log(kind, 'skip-domain')
                return
            x = [betas[n] for n in b.free_beta_names]
            v = self.lib('calculate_likelihood on a live BIOGEME object', lambda: float(b.calculate_likelihood(x, scaled=False)))
            if v is not None:
                self.cmp('sum of the first formula over the rows', [v], [sum(w)])
                self._after_valid()
            ctx.log(kind, rec['idx'][0])
        else:
            import biogeme.expressions as ex
            n = len(self.dbs[dbi].data)
            if a[1]:
                avail = {1: self.builder.var('av1'), 2: self.builder.var('av2'), 3: self.builder.var('av3')}
                want = -sum(math.log(r['av1'] + r['av2'] + r['av3']) for r in self.rows_for(dbi))
                ctx.probe('null likelihood with availabilities sharing Variable objects')
            else:
                avail = {1: 1, 2: 1, 3: 1}
                want = -n * math.log(3)
            v = self.lib('calculate_null_loglikelihood', lambda: float(b.calculate_null_loglikelihood(avail)))
            if v is not None:
                self.cmp('null log likelihood', [v], [want])
            ctx.log(kind)
