"""W-names: parameters are identified by name (C03, partial): histories of by-name writes and reads
against a name->value store, executed side by side in two universes that differ by a bijective
renaming of all parameters (in half of the runs order-reversing) and by the order of the terms."""

from __future__ import annotations

import math
import random

from .. import specs, ref
from ..core import fhex

name = 'names'
RAISE_ORACLE = 'I03.raise'
B_POOL = ['Zeta', 'alpha', 'Beta_1', 'beta_1', 'GAMMA', 'gamma', 'delta', 'Delta', 'omega', 'Omega', 'x_1', 'X_1',
          'a', 'B', 'c', 'D', 'mu_b', 'MU_a', 'kappa 2', 'kappa.1']
ALGOS = ['simple_bounds', 'simple_bounds_newton', 'scipy', 'TR-newton', 'LS-newton']


def make_config(rng, profile, tier):
    cfg = specs.gen_model_config(rng, k_max=4, fancy_names=False, allow_cliff=False, weight=True, bounds=True)
    cfg['names'] = rng.sample(['asc', 'b_time', 'b_cost', 'beta', 'BETA', 'b', 'b1', 'b10', 'b2', 'coef_2', 'coef_10', 'mu',
                               'a_b'], cfg['K'])
    cfg['N'] = max(cfg['N'], 5)
    if rng.random() < 0.2:
        # every starting value written as a Python integer
        cfg['init'] = [float(rng.choice([0, 0, 1])) for _ in range(cfg['K'])]
        cfg['int_init'] = True
    if not cfg['fixed'] and rng.random() < 0.5:
        cfg['fixed'] = [['fx0', rng.choice([1.0, -0.5, 0.25])]]
    # feasible starting values
    for i, bd in enumerate(cfg['bounds']):
        if bd:
            if bd[0] is not None and cfg['init'][i] < bd[0]:
                cfg['init'][i] = bd[0] + 0.1
            if bd[1] is not None and cfg['init'][i] > bd[1]:
                cfg['init'][i] = bd[1] - 0.1
    all_names = cfg['names'] + [f[0] for f in cfg['fixed']]
    new = rng.sample(B_POOL, len(all_names))
    reverse = rng.random() < 0.5
    if reverse:
        mapping = dict(zip(sorted(all_names), sorted(new, reverse=True)))
    else:
        mapping = dict(zip(all_names, new))
    cfg['name_map'] = mapping
    cfg['order_reversing'] = reverse
    cfg['threads'] = rng.choice([1, 2, 3])
    cfg['save_iter'] = rng.random() < 0.5
    cfg['dup_objects'] = rng.random() < 0.4
    cfg['linutil'] = rng.random() < 0.3
    return cfg


def make_ops(rng, cfg, profile, tier):
    ops = []
    for _ in range(rng.randrange(4, 14)):
        r = rng.random()
        if r < 0.2:
            ops.append({'op': 'LL', 'a': [rng.randrange(1 << 16), rng.random() < 0.3]})
        elif r < 0.3:
            ops.append({'op': 'LLD', 'a': [rng.randrange(1 << 16)]})
        elif r < 0.45:
            ops.append({'op': 'CHANGE_INIT', 'a': [rng.randrange(1 << 16), rng.random() < 0.5]})
        elif r < 0.53:
            ops.append({'op': 'EVAL_C', 'a': [rng.randrange(1 << 16)]})
        elif r < 0.57:
            ops.append({'op': 'EVAL_KEEP', 'a': [rng.randrange(1 << 16), rng.randrange(1 << 16)]})
        elif r < 0.69:
            ops.append({'op': 'SIMULATE', 'a': [rng.randrange(1 << 16)]})
        elif r < 0.8:
            ops.append({'op': 'ESTIMATE', 'a': [rng.choice(ALGOS), rng.choice([0, 0, 2, 3])]})
        elif r < 0.84:
            ops.append({'op': 'GET', 'a': []})
        elif r < 0.86:
            ops.append({'op': 'RANDOM_INIT', 'a': [rng.choice([1.5, 3.0, 0.75])]})
        elif r < 0.865:
            ops.append({'op': 'SHARED_BETAS', 'a': [rng.randrange(4)]})
        elif r < 0.868:
            ops.append({'op': 'CATALOG_BETA', 'a': [rng.randrange(4)]})
        elif r < 0.869:
            ops.append({'op': 'SINGULAR_REPORT', 'a': [rng.randrange(3)]})
        elif r < 0.876:
            ops.append({'op': rng.choice(['RENAME_SHARED', 'RENAME_SHARED', 'BLANK_NAMES']), 'a': [rng.randrange(8)]})
        elif r < 0.93:
            ops.append({'op': 'FIX', 'a': [rng.randrange(64), round(rng.uniform(-1, 1), 2),
                                           rng.choice([None, None, 'prefix', 'suffix'])]})
        else:
            ops.append({'op': 'DUP_KIND', 'a': [rng.randrange(64)]})
    return ops


def died_is_outcome(spec, res):
    return False


def pinned_ops(spec):
    return set()


def simplifications(spec):
    cfg = spec['config']
    if cfg.get('weight'):
        yield dict(spec, config=dict(cfg, weight=None))


def nontrivial(spec, res):
    c = res.get('counters', {})
    return c.get('cross_universe_comparisons', 0) >= 3 and c.get('by_name_writes', 0) >= 1


class Universe:
    def __init__(self, sess, name_map, reverse):
        self.sess = sess
        self.map = dict(name_map or {})
        self.model_name = 'mB' if name_map else 'mA'
        self.reverse = reverse
        self.rebuild(first=True)

    def nm(self, a_name):
        return self.map.get(a_name, a_name)

    def rebuild(self, first=False):
        import biogeme.biogeme as bio
        import biogeme.database as db
        from biogeme.parameters import Parameters
        sess = self.sess
        if first:
            self.ll, self.w, self.betas = specs.build_formulas(sess.cfg, name_map=self.map, reverse_terms=self.reverse)
            self.twins = self.betas.pop('__twins__', [])
        p = Parameters()
        p.set_value('save_iterations', bool(sess.cfg.get('save_iter')))
        p.set_value('generate_html', False)
        p.set_value('generate_pickle', False)
        p.set_value('number_of_threads', sess.cfg['threads'])
        p.set_value('max_iterations', 200)
        forms = {'log_like': self.ll}
        if self.w is not None:
            forms['weight'] = self.w
        self.db = db.Database('n', sess.table.copy())
        self.b = bio.BIOGEME(self.db, forms, parameters=p)
        self.b.modelName = self.model_name

    def vec(self, x):
        """x: dict A-name -> value, for the free parameters."""
        inv = {self.nm(a): a for a in x}
        return [x[inv[n]] for n in self.b.free_beta_names]


class Session:
    def __init__(self, ctx):
        from .. import env
        env.import_library()
        import numpy as np
        self.np = np
        self.ctx = ctx
        self.cfg = ctx.config
        self.table = specs.make_table(self.cfg)
        # the store: A-name -> {'value', 'free', 'bounds'}
        self.store = {}
        for i, n in enumerate(self.cfg['names']):
            self.store[n] = {'value': float(self.cfg['init'][i]), 'free': True, 'bounds': self.cfg['bounds'][i]}
        for n, v in self.cfg['fixed']:
            self.store[n] = {'value': float(v), 'free': False, 'bounds': None}
        self.tol = 0.0   # bit-exact until an estimation writes values that differ by the optimiser's tolerance
        self.U = [Universe(self, None, False), Universe(self, self.cfg['name_map'], True)]
        if self.cfg['order_reversing']:
            ctx.probe('order-reversing renaming')

    @staticmethod
    def _pair_of(label, names):
        """The two parameter names of a row label 'a-b' of the second-order table (names may contain '-')."""
        for x_ in names:
            for y_ in names:
                if label == f'{x_}-{y_}':
                    return (x_, y_)
        return (label, label)

    # -- reference -----------------------------------------------------------------------
    def free_names(self):
        return [n for n in self.store if self.store[n]['free']]

    def values(self, override=None):
        d = {n: s['value'] for n, s in self.store.items()}
        if override:
            d.update(override)
        return d

    def ref_ll(self, vals):
        cfg = self.ref_cfg()
        rows = specs.ref_loglike(cfg, self.table, vals, per_row=True)
        w = specs.ref_weights(cfg, self.table)
        return sum(a * b for a, b in zip(w, rows)), rows, w

    def ref_cfg(self):
        return self.cfg

    def point(self, seed):
        rng = random.Random(seed)
        x = {}
        for n in self.free_names():
            v = self.store[n]['value'] + rng.uniform(-0.8, 0.8)
            x[n] = round(v, 6)
        return x

    def cmp(self, what, a, b, rel=1e-10, oracle='I03.rename'):
        if not ref.close(float(a), float(b), rel, 1e-12):
            self.ctx.fail(oracle, f'{what}: {float(a)!r} vs {float(b)!r}')

    def both(self, fn):
        out = []
        for u in self.U:
            out.append(fn(u))
        self.ctx.count('cross_universe_comparisons')
        return out

    # -- operations ----------------------------------------------------------------------------
    def apply(self, i, op):
        ctx = self.ctx
        kind, a = op['op'], op['a']
        ctx.count('op:' + kind)
        np = self.np
        if kind == 'LL':
            x = self.point(a[0])
            want, _, _ = self.ref_ll(self.values(x))
            n = len(self.table)
            got = self.both(lambda u: float(u.b.calculate_likelihood(u.vec(x), scaled=a[1])))
            self.cmp('log likelihood under the two namings', got[0], got[1])
            self.cmp('log likelihood vs the store', got[0], want / n if a[1] else want, oracle='I03.store')
            ctx.log(kind, fhex(got[0]))
        elif kind == 'LLD':
            x = self.point(a[0])
            outs = self.both(lambda u: (u, u.b.calculate_likelihood_and_derivatives(u.vec(x), scaled=False, hessian=True, bhhh=True)))
            (u0, o0), (u1, o1) = outs
            self.cmp('log likelihood under the two namings', o0.function, o1.function)
            names0, names1 = u0.b.free_beta_names, u1.b.free_beta_names
            for ai, an in enumerate(self.free_names()):
                i0, i1 = names0.index(u0.nm(an)), names1.index(u1.nm(an))
                self.cmp(f'gradient entry of {an}', o0.gradient[i0], o1.gradient[i1], rel=1e-8)
                for bn in self.free_names():
                    j0, j1 = names0.index(u0.nm(bn)), names1.index(u1.nm(bn))
                    self.cmp(f'Hessian entry ({an},{bn})', o0.hessian[i0][j0], o1.hessian[i1][j1], rel=1e-8)
                    self.cmp(f'BHHH entry ({an},{bn})', o0.bhhh[i0][j0], o1.bhhh[i1][j1], rel=1e-8)
            ctx.log(kind, fhex(o0.function))
        elif kind == 'CHANGE_INIT':
            rng = random.Random(a[0])
            free = self.free_names()
            chosen = rng.sample(free, rng.randrange(1, len(free) + 1))
            new = {n: round(self._feasible(n, self.store[n]['value'] + rng.uniform(-0.5, 0.5)), 4) for n in chosen}
            if a[0] % 3 == 0:
                n0_ = chosen[0]
                new[n0_] = self._feasible(n0_, 0.0)      # the value 0 is a value like any other
            for u in self.U:
                d = {u.nm(n): v for n, v in new.items()}
                if a[1]:
                    u.b.change_init_values(d)
                else:
                    u.ll.change_init_values(d)
                    if u.w is not None:
                        u.w.change_init_values(d)
                    u.rebuild()    # a formula changed outside its BIOGEME object: new object
            for n, v in new.items():
                self.store[n]['value'] = v
            ctx.count('by_name_writes')
            if len(chosen) < len(free):
                ctx.probe('partial dictionary')
            self.check_store('change_init_values')
            got = self.both(lambda u: float(u.b.calculate_init_likelihood()))
            want, _, _ = self.ref_ll(self.values())
            rel = 1e-10 if self.tol == 0 else 1e-6
            self.cmp('initial log likelihood under the two namings', got[0], got[1], rel=rel)
            self.cmp('initial log likelihood vs the store after a by-name write', got[0], want, rel=rel, oracle='I03.store')
            ctx.log(kind, sorted(new.items()))
        elif kind == 'EVAL_C':
            rng = random.Random(a[0])
            free = self.free_names()
            chosen = rng.sample(free, rng.randrange(0, len(free) + 1))
            over = {n: round(self.store[n]['value'] + rng.uniform(-0.5, 0.5), 4) for n in chosen}
            want, _, _ = self.ref_ll_unweighted(self.values(over))
            got = self.both(lambda u: float(u.ll.get_value_c(database=u.db, betas={u.nm(n): v for n, v in over.items()},
                                                             aggregation=True, prepare_ids=True)))
            rel = 1e-10 if self.tol == 0 else 1e-6
            self.cmp('get_value_c with a partial dictionary under the two namings', got[0], got[1], rel=rel)
            self.cmp('get_value_c with a partial dictionary vs the store', got[0], want, rel=rel, oracle='I03.store')
            if len(chosen) < len(free):
                ctx.probe('partial dictionary')
            ctx.log(kind, sorted(over.items()))
        elif kind == 'EVAL_KEEP':
            # the formula keeps the numbering of its BIOGEME object (prepare_ids=False): an evaluation at an explicit
            # point, then one with a partial dictionary - parameters that are not named take their own value, not the
            # one left behind by the previous evaluation
            x = self.point(a[0])
            rng = random.Random(a[1])
            free = self.free_names()
            chosen = rng.sample(free, rng.randrange(0, len(free)))
            over = {n: round(self.store[n]['value'] + rng.uniform(-0.5, 0.5), 4) for n in chosen}
            if chosen and a[1] % 3 == 0:
                over[chosen[0]] = self._feasible(chosen[0], 0.0)     # the value 0 is a value like any other
            want1, _, _ = self.ref_ll_unweighted(self.values(x))
            want2, _, _ = self.ref_ll_unweighted(self.values(over))
            # the dictionary may also name a FIXED parameter: a fixed parameter keeps the value it was given
            fixed_names = [n for n, st in self.store.items() if not st['free']]
            named_fixed = {}
            if fixed_names and a[1] % 2:
                named_fixed = {fixed_names[0]: self.store[fixed_names[0]]['value'] + 0.75}
                ctx.probe('dictionary naming a fixed parameter')

            def two(u):
                for f_ in u.b.formulas.values():
                    f_.set_id_manager(u.b.id_manager)
                kids = u.ll.get_children()
                if kids:
                    # derivatives of a PART of the formula reported by name while the numbering of the whole formula is in
                    # force: each entry belongs to the parameter it is labelled with (checked against finite differences
                    # of the same part, by name)
                    pt = {u.nm(n): v for n, v in self.values(x).items() if self.store[n]['free']}
                    # preferably a part that does not hold every free parameter of the formula
                    from biogeme.expressions import TypeOfElementaryExpression as _T
                    kid, queue = kids[-1], list(kids)
                    while queue:
                        c_ = queue.pop(0)
                        inside = set(c_.set_of_elementary_expression(_T.FREE_BETA))
                        if inside and inside < set(pt) and c_.get_children():
                            kid = c_
                            self.ctx.probe('part of a bound formula that lacks some of its parameters')
                            break
                        queue += list(c_.get_children())
                    out = kid.get_value_and_derivatives(betas=pt, database=u.db, aggregation=True, prepare_ids=False,
                                                        named_results=True, gradient=True, hessian=False, bhhh=False)
                    for nm_, g_ in out.gradient.items():
                        if nm_ not in pt:
                            continue
                        h_ = 1e-6 * max(1.0, abs(pt[nm_]))
                        up, dn = dict(pt), dict(pt)
                        up[nm_] += h_
                        dn[nm_] -= h_
                        fd_ = (float(kid.get_value_c(database=u.db, betas=up, aggregation=True, prepare_ids=False)) -
                               float(kid.get_value_c(database=u.db, betas=dn, aggregation=True, prepare_ids=False))) / (2 * h_)
                        if abs(float(g_) - fd_) > 1e-4 * max(1.0, abs(fd_)):
                            self.ctx.fail('I03.named', f'derivative of a part of the formula reported for {nm_}: {float(g_)!r}, '
                                                       f'finite differences with respect to {nm_} give {fd_!r} '
                                                       f'(all entries: {dict(out.gradient)})')
                    self.ctx.probe('derivatives of a part of a bound formula reported by name')
                    # ... then a part of the formula is evaluated on its own (temporary numbering, restored afterwards)
                    kids[0].get_value_c(database=u.db, aggregation=True, prepare_ids=True)
                v1 = float(u.ll.get_value_c(database=u.db, betas={u.nm(n): v for n, v in x.items()}, aggregation=True,
                                            prepare_ids=False))
                v2 = float(u.ll.get_value_c(database=u.db, betas={u.nm(n): v for n, v in {**over, **named_fixed}.items()},
                                            aggregation=True, prepare_ids=False))
                return v1, v2
            (a1, a2), (b1, b2) = self.both(two)
            rel = 1e-10 if self.tol == 0 else 1e-6
            self.cmp('evaluation at an explicit point under the two namings', a1, b1)
            self.cmp('evaluation at an explicit point vs the store', a1, want1, oracle='I03.store')
            self.cmp('evaluation with a partial dictionary after another evaluation, under the two namings', a2, b2, rel=rel)
            self.cmp('evaluation with a partial dictionary after another evaluation vs the store', a2, want2, rel=rel,
                     oracle='I03.store')
            ctx.probe('partial dictionary after an evaluation at other values (numbering kept)')
            # observation O6 (DESIGN): an evaluation of a bound formula with prepare_ids=False stores its point in the
            # object's own list of starting values; later by-name operations use a new object
            for u in self.U:
                u.rebuild()
            ctx.log(kind, sorted(over.items()))
        elif kind == 'SIMULATE':
            x = self.point(a[0])
            _, rows, w = self.ref_ll(self.values(x))

            def sim(u):
                keys = [u.nm(n) for n in x]
                random.Random(a[0]).shuffle(keys)
                inv = {u.nm(n): n for n in x}
                return u.b.simulate({k: x[inv[k]] for k in keys})
            s0, s1 = self.both(sim)
            for r in range(len(rows)):
                self.cmp(f'simulated value of row {r} under the two namings', s0['log_like'].iloc[r], s1['log_like'].iloc[r])
                self.cmp(f'simulated value of row {r} vs the store', s0['log_like'].iloc[r], rows[r], oracle='I03.store')
            ctx.log(kind)
        elif kind == 'ESTIMATE':
            algo = a[0]
            fixed_before = {n: s['value'] for n, s in self.store.items() if not s['free']}

            boot = a[1] if len(a) > 1 and len(self.free_names()) >= 2 else 0

            def est(u):
                u.b.biogeme_parameters.set_value('optimization_algorithm', algo)
                if boot:
                    u.b.biogeme_parameters.set_value('bootstrap_samples', boot)
                return u.b.estimate(run_bootstrap=bool(boot))
            r0, r1 = self.both(est)
            if boot:
                # bootstrap replications reported by name: any subset of the names, in any order
                for u, r in ((self.U[0], r0), (self.U[1], r1)):
                    names_u = list(r.data.betaNames)
                    sub = random.Random(len(names_u) + boot).sample(names_u, random.Random(boot).randrange(1, len(names_u) + 1))
                    draws = r.get_betas_for_sensitivity_analysis(sub, use_bootstrap=True)
                    bt = np.asarray(r.data.bootstrap)
                    if len(draws) != bt.shape[0]:
                        ctx.fail('I03.results', f'{len(draws)} bootstrap draws reported for {bt.shape[0]} replications')
                    for row, d in zip(bt, draws):
                        if sorted(d) != sorted(sub):
                            ctx.fail('I03.results', f'bootstrap draw reported for {sorted(d)}, requested {sorted(sub)}')
                        for nm_, v_ in d.items():
                            if float(v_) != float(row[names_u.index(nm_)]):
                                ctx.fail('I03.results', f'bootstrap draw reports {nm_} = {float(v_)!r}, the replication holds '
                                                        f'{float(row[names_u.index(nm_)])!r} for that parameter')
                    ctx.probe('bootstrap replications compared by name')
            self.cmp(f'final log likelihood [{algo}] under the two namings', r0.data.logLike, r1.data.logLike, rel=1e-6)
            e0, e1 = r0.get_beta_values(), r1.get_beta_values()
            # estimates requested by name: any subset of the names, in any order
            for r, e_all in ((r0, e0), (r1, e1)):
                names_u = list(r.data.betaNames)
                rs_ = random.Random(len(names_u) * 31 + len(algo))
                sub = rs_.sample(names_u, rs_.randrange(1, len(names_u) + 1))
                got_ = r.get_beta_values(sub)
                if sorted(got_) != sorted(sub) or any(float(got_[n_]) != float(e_all[n_]) for n_ in sub):
                    ctx.fail('I03.results', f'estimates requested for {sub}: {dict(got_)}, the estimates are {dict(e_all)}')
                if sub != sorted(sub) or len(sub) < len(names_u):
                    ctx.probe('estimates requested by name for a subset / another order')
            # second-order statistics requested for a subset of the names, listed in any order: the same rows as in the
            # full table
            for r in (r0, r1):
                names_u = list(r.data.betaNames)
                if len(names_u) >= 2:
                    rs_ = random.Random(len(names_u) * 17 + len(algo))
                    sub = rs_.sample(names_u, rs_.randrange(2, len(names_u) + 1))
                    full_ = r.get_correlation_results()
                    part_ = r.get_correlation_results(subset=sub)
                    want_rows = [lab for lab in full_.index if all(x_ in sub for x_ in self._pair_of(lab, names_u))]
                    if sorted(part_.index) != sorted(want_rows):
                        ctx.fail('I03.results', f'second-order statistics for {sub}: rows {sorted(part_.index)}, the full table '
                                                f'has {sorted(want_rows)} for these parameters')
                    for lab in want_rows:
                        a_, b_ = full_.loc[lab].to_list(), part_.loc[lab].to_list()
                        if any((x_ != y_) and not (x_ != x_ and y_ != y_) for x_, y_ in zip(a_, b_)):
                            ctx.fail('I03.results', f'second-order statistics for {sub}: row {lab} differs from the full table')
                    ctx.probe('second-order statistics requested for a subset of the names')
            # results of several estimations compiled into one table: each cell is the estimate of THAT parameter in THAT model
            import biogeme.results as _res
            kept_ = getattr(self, 'kept_for_table', [])
            kept_.append((r0, r1))
            self.kept_for_table = kept_[-3:]
            if len(self.kept_for_table) >= 2:
                for ui_, rev_ in ((0, False), (1, False), (0, True), (1, True)):
                    # (in both orders: a later model may bring parameters that an earlier one does not have)
                    items_ = list(enumerate(self.kept_for_table))
                    if rev_:
                        items_ = items_[::-1]
                    rs_ = {f'model_{j_}': pair_[ui_] for j_, pair_ in items_}
                    tab_, _ = _res.compile_estimation_results(rs_, statistics=(), include_robust_ttest=False, formatted=False)
                    for mname_, r_ in rs_.items():
                        for b_ in r_.data.betas:
                            cell_ = tab_.loc[b_.name, mname_] if b_.name in tab_.index else None
                            if cell_ is None or cell_ == '' or float(cell_) != float(b_.value):
                                ctx.fail('I03.results', f'table of several estimations: row {b_.name}, column {mname_} holds '
                                                        f'{cell_!r}, the estimate of {b_.name} in that model is {float(b_.value)!r}')
                        for row_ in tab_.index:
                            if row_ not in [b_.name for b_ in r_.data.betas] and tab_.loc[row_, mname_] != '':
                                ctx.fail('I03.results', f'table of several estimations: row {row_} has a value in column {mname_}, '
                                                        f'a model without that parameter')
                if len({tuple(sorted(b_.name for b_ in p_[0].data.betas)) for p_ in self.kept_for_table}) >= 2:
                    ctx.probe('table of estimations with different sets of parameters')
            p0 = r0.get_estimated_parameters(only_robust=False)
            p1 = r1.get_estimated_parameters(only_robust=False)
            if self.cfg.get('save_iter'):
                # values saved for a restart are attached to the right names
                import os
                for u, r in ((self.U[0], r0), (self.U[1], r1)):
                    fn = f'__{u.b.modelName}.iter'
                    if os.path.exists(fn):
                        saved = {}
                        with open(fn, encoding='utf-8') as fh:
                            for line in fh:
                                k_, v_ = line.split('=')
                                saved[k_.strip()] = float(v_)
                        est_ = r.get_beta_values()
                        for k_, v_ in est_.items():
                            if k_ not in saved or abs(saved[k_] - float(v_)) > 1e-4 * max(1.0, abs(float(v_))):
                                ctx.fail('I03.saved', f'saved iteration file {fn} holds {k_} = {saved.get(k_)!r}, the estimate '
                                                      f'of {k_} is {float(v_)!r}')
                        ctx.probe('saved iteration file compared by name')
            for u, r in ((self.U[0], r0), (self.U[1], r1)):
                est = r.get_beta_values()
                for rb in r.data.betas:
                    inv = {u.nm(n): n for n in self.free_names()}
                    if rb.name not in inv:
                        ctx.fail('I03.results', f'results list a parameter {rb.name} that is not a free parameter')
                    bd = self.store[inv[rb.name]]['bounds'] or [None, None]
                    if (rb.lb, rb.ub) != tuple(bd):
                        ctx.fail('I03.bounds', f'results [{algo}]: bounds of {inv[rb.name]} ({rb.name}) are '
                                               f'{(rb.lb, rb.ub)}, declared {bd}')
                    if float(rb.value) != float(est[rb.name]):
                        ctx.fail('I03.results', f'results [{algo}]: value stored for {rb.name} is {rb.value!r}, '
                                                f'get_beta_values() gives {est[rb.name]!r}')
                # the eigenvectors reported for identification diagnostics are attached to the parameters in the
                # reported order: they must be eigenvectors of minus the reported Hessian
                if getattr(r.data, 'H', None) is not None and getattr(r.data, 'smallestEigenVector', None) is not None:
                    M_ = -np.nan_to_num(np.asarray(r.data.H, dtype=float))
                    for which in ('smallest', 'largest'):
                        v_ = np.asarray(getattr(r.data, f'{which}EigenVector'), dtype=float)
                        lam_ = float(getattr(r.data, f'{which}EigenValue'))
                        if v_.shape == (M_.shape[0],) and np.all(np.isfinite(M_)):
                            resid = float(np.linalg.norm(M_ @ v_ - lam_ * v_))
                            if resid > 1e-7 * max(1.0, float(np.linalg.norm(M_))):
                                ctx.fail('I03.results', f'results [{algo}]: the {which} eigenvector reported for '
                                                        f'{list(r.data.betaNames)} is not an eigenvector of minus the reported '
                                                        f'Hessian for the eigenvalue {lam_!r} (residual {resid!r})')
                if list(r.data.betaNames) != sorted(u.nm(n) for n in self.free_names()):
                    ctx.fail('I03.results', f'results list the parameters as {list(r.data.betaNames)}')
            for n in self.free_names():
                n0, n1 = self.U[0].nm(n), self.U[1].nm(n)
                if abs(float(e0[n0]) - float(e1[n1])) > 2e-4 * max(1.0, abs(float(e0[n0]))):
                    ctx.fail('I03.rename', f'estimate of {n} [{algo}]: {float(e0[n0])!r} as {n0}, {float(e1[n1])!r} as {n1}')
                for col in ('Rob. Std err', 'Std err', 'Rob. t-test'):
                    if col == 'Rob. t-test' and abs(float(e0[n0])) < 1e-6:
                        continue   # an estimate that is zero up to the optimiser's tolerance has no determined t ratio
                    v0, v1 = float(p0.loc[n0][col]), float(p1.loc[n1][col])
                    if math.isfinite(v0) and math.isfinite(v1) and max(abs(v0), abs(v1)) < 1e6 \
                            and abs(v0 - v1) > 5e-3 * max(1.0, abs(v0)):
                        ctx.fail('I03.rename', f'{col} of {n} [{algo}]: {v0!r} as {n0}, {v1!r} as {n1}')
                self.store[n]['value'] = float(e0[n0])
            for n, v in fixed_before.items():
                for u in self.U:
                    got = u.betas[n].initValue
                    if got != v or u.betas[n].status == 0:
                        ctx.fail('I03.fixed', f'fixed parameter {n} ({u.nm(n)}) changed from {v!r} to {got!r} during estimation')
            ctx.count('by_name_writes')
            self.tol = 2e-4
            self.check_store('estimate')
            # the object's own list of starting values is not refreshed by estimate() (observation recorded in
            # DESIGN, outside the letter of C03): later by-name operations use a new object built from the formulas,
            # whose starting values are the estimates
            for u in self.U:
                u.rebuild()
            ctx.log(kind, algo, fhex(r0.data.logLike))
        elif kind == 'GET':
            self.check_store('get')
            ctx.log(kind)
        elif kind == 'FIX':
            free = self.free_names()
            if len(free) < 2:
                ctx.log(kind, 'skip')
            else:
                n = free[a[0] % len(free)]
                v = self._feasible(n, a[1])
                before = {m: s['value'] for m, s in self.store.items() if m != n}
                mode = a[2] if len(a) > 2 else None
                for u in self.U:
                    if mode is None:
                        u.ll.fix_betas({u.nm(n): v})
                    elif mode == 'prefix':
                        # the parameters NAMED in the dictionary (and only those) are renamed as well
                        u.ll.fix_betas({u.nm(n): v}, prefix='fx_')
                        u.map[n] = 'fx_' + u.nm(n)
                    else:
                        u.ll.fix_betas({u.nm(n): v}, suffix='_fx')
                        u.map[n] = u.nm(n) + '_fx'
                    u.rebuild()
                if mode:
                    ctx.probe('fix_betas with a prefix / suffix and a partial dictionary')
                self.store[n].update(value=v, free=False)
                ctx.count('by_name_writes')
                for u in self.U:
                    if u.nm(n) in u.b.free_beta_names:
                        ctx.fail('I03.fixed', f'{n} ({u.nm(n)}) is still free after fix_betas')
                    for m, val in before.items():
                        if abs(u.betas[m].initValue - val) > self.tol * max(1.0, abs(val)):
                            ctx.fail('I03.partial', f'fix_betas({n}) changed the value of {m} ({u.nm(m)}): '
                                                    f'{val!r} -> {u.betas[m].initValue!r}')
                        if (u.betas[m].status == 0) != self.store[m]['free']:
                            ctx.fail('I03.partial', f'fix_betas({n}) changed the status of {m} ({u.nm(m)})')
                self.check_store('fix_betas')
                ctx.log(kind, n, v)
        elif kind == 'SHARED_BETAS':
            # two models on one table that SHARE parameter objects; the shared parameter has another alphabetical rank in
            # each model. Values given by name to one model reach the parameters of that name, whatever was built or
            # simulated in between
            import biogeme.biogeme as bio
            import biogeme.database as db
            import biogeme.expressions as ex
            from biogeme.parameters import Parameters
            order = a[0]
            sh = ex.Beta('sh_b', 0.1, None, None, 0)
            c_ = ex.Beta('sh_c', 0.2, None, None, 0)
            a_ = ex.Beta('sh_a', 0.3, None, None, 0)
            x0 = ex.Variable('x0')
            f1 = sh * 2.0 + c_ * x0 + 1
            f2 = a_ * 3.0 - sh * x0 + 2
            d_ = db.Database('shared', self.table.copy())
            xs = [float(v) for v in self.table['x0'].to_list()]
            v1 = {'sh_b': 0.75, 'sh_c': -1.5}
            v2 = {'sh_a': 2.0, 'sh_b': -0.25}
            want1 = [v1['sh_b'] * 2.0 + v1['sh_c'] * x_ + 1 for x_ in xs]
            want2 = [v2['sh_a'] * 3.0 - v2['sh_b'] * x_ + 2 for x_ in xs]

            def obj(f):
                p = Parameters()
                p.set_value('save_iterations', False)
                p.set_value('number_of_threads', self.cfg['threads'])
                return bio.BIOGEME(d_, {'p': f}, parameters=p)

            def sim(b, vals, want, what):
                keys = sorted(vals, reverse=bool(order % 2))
                got = [float(v) for v in b.simulate({k_: vals[k_] for k_ in keys})['p'].to_list()]
                for i_, (g_, w_) in enumerate(zip(got, want)):
                    if abs(g_ - w_) > 1e-12 * max(1.0, abs(w_)):
                        ctx.fail('I03.shared', f'{what}: row {i_}: {g_!r}, with the values given by name it is {w_!r}')
            b1 = obj(f1)
            if order >= 2:
                sim(b1, v1, want1, 'first model, simulated before the second one is built')
            b2 = obj(f2)
            sim(b1, v1, want1, 'first model, simulated after a second model sharing one of its parameters was built')
            sim(b2, v2, want2, 'second model (shares a parameter object with the first one)')
            sim(b1, v1, want1, 'first model again')
            ctx.probe('two models sharing a parameter object')
            ctx.log(kind, order)
        elif kind == 'RENAME_SHARED':
            # the library's own renaming (rename_elementary with a prefix or a suffix) applied to a formula in which a
            # sub-formula is used twice, for a list of names in which the new name of one parameter is the old name of
            # another: a one-to-one renaming, which leaves every value unchanged
            import biogeme.database as db
            import biogeme.expressions as ex
            from biogeme.expressions import TypeOfElementaryExpression as _T
            mode = a[0] % 4
            distinct = a[0] >= 4     # the second use is written again: other objects carrying the same names
            pre, suf = ('alt_', None) if mode % 2 == 0 else (None, '_bis')
            n1 = 'rn_b'
            n2 = ('alt_' + n1) if pre else (n1 + '_bis')

            def mk():
                b_ = ex.Beta(n1, 0.3, None, None, 0)
                a_ = ex.Beta(n2, -0.2, None, None, 0)
                v_ = b_ * ex.Variable('x0') + a_
                v2_ = (ex.Beta(n1, 0.3, None, None, 0) * ex.Variable('x0') + ex.Beta(n2, -0.2, None, None, 0)) if distinct else v_
                return (ex.Variable('one') * v_ - ex.log(1 + ex.exp(v2_))) if mode < 2 else (v_ * v2_ + v_)
            d_ = db.Database('rn', self.table.copy())
            base = [float(v) for v in mk().get_value_c(database=d_, prepare_ids=True)]
            g = mk()
            g.rename_elementary([n1, n2], prefix=pre, suffix=suf)
            names_after = sorted(g.set_of_elementary_expression(_T.FREE_BETA))
            want_names = sorted([(pre or '') + n1 + (suf or ''), (pre or '') + n2 + (suf or '')])
            if names_after != want_names:
                ctx.fail('I03.rename', f'rename_elementary({[n1, n2]}, prefix={pre!r}, suffix={suf!r}) on a formula that uses a '
                                       f'sub-formula twice gives the parameters {names_after}, expected {want_names}')
            got = [float(v) for v in g.get_value_c(database=d_, prepare_ids=True)]
            for i_, (g_, w_) in enumerate(zip(got, base)):
                if abs(g_ - w_) > 1e-12 * max(1.0, abs(w_)):
                    ctx.fail('I03.rename', f'after the one-to-one renaming row {i_} evaluates to {g_!r}, before to {w_!r}')
            ctx.probe('library renaming on a formula with ' + ('names carried by several objects' if distinct else 'a shared sub-formula'))
            ctx.log(kind, mode)
        elif kind == 'BLANK_NAMES':
            # names are free strings: three parameters whose names differ only by a blank at one end are three parameters,
            # each known under exactly the name it was given (no file is involved here)
            import biogeme.biogeme as bio
            import biogeme.database as db
            import biogeme.expressions as ex
            from biogeme.expressions import TypeOfElementaryExpression as _T
            from biogeme.parameters import Parameters
            given = [['bn', 'bn ', ' bn'], ['bn ', 'bn'], [' k', 'k', 'k  ']][a[0] % 3]
            vals = {n_: round(0.3 + 0.25 * i_, 2) for i_, n_ in enumerate(given)}
            bs = [ex.Beta(n_, 0.0, None, None, 0) for n_ in given]
            x0 = ex.Variable('x0')
            f = bs[0] * x0
            for i_, b_ in enumerate(bs[1:], start=2):
                f = f + b_ * float(i_)
            ll = -(f - 1.0) * (f - 1.0)
            seen = sorted(ll.set_of_elementary_expression(_T.FREE_BETA))
            if seen != sorted(given):
                ctx.fail('I03.names', f'parameters declared as {sorted(given)!r} are known as {seen!r}')
            d_ = db.Database('bl', self.table.copy())
            want = []
            for x_ in self.table['x0']:
                u_ = vals[given[0]] * float(x_) + sum(vals[n_] * float(i_) for i_, n_ in enumerate(given[1:], start=2))
                want.append(-(u_ - 1.0) ** 2)
            got = [float(v) for v in ll.get_value_c(database=d_, betas=dict(vals), prepare_ids=True)]
            for i_, (g_, w_) in enumerate(zip(got, want)):
                if abs(g_ - w_) > 1e-10 * max(1.0, abs(w_)):
                    ctx.fail('I03.names', f'values given by name to parameters {given!r}: row {i_} evaluates to {g_!r}, the formula '
                                          f'gives {w_!r}')
            p = Parameters()
            p.set_value('save_iterations', False)
            p.set_value('generate_html', False)
            p.set_value('generate_pickle', False)
            p.set_value('number_of_threads', 1)
            b = bio.BIOGEME(d_, {'log_like': ll}, parameters=p)
            if list(b.free_beta_names) != sorted(given):
                ctx.fail('I03.names', f'the object lists the parameters {list(b.free_beta_names)!r}, declared: {sorted(given)!r}')
            v = float(b.calculate_likelihood([vals[n_] for n_ in b.free_beta_names], scaled=False))
            if abs(v - sum(want)) > 1e-9 * max(1.0, abs(sum(want))):
                ctx.fail('I03.names', f'log likelihood with values listed in the order of free_beta_names: {v!r}, expected {sum(want)!r}')
            sim = b.simulate(dict(vals))
            for i_, (g_, w_) in enumerate(zip([float(z_) for z_ in sim['log_like']], want)):
                if abs(g_ - w_) > 1e-10 * max(1.0, abs(w_)):
                    ctx.fail('I03.names', f'simulate with values by name for {given!r}: row {i_} gives {g_!r}, expected {w_!r}')
            ctx.probe('parameter names that differ by a blank at one end')
            ctx.log(kind, a[0] % 3)
        elif kind == 'SINGULAR_REPORT':
            # a model that is almost not identified along one direction: the report names the parameters involved in
            # that direction - those whose component of the eigenvector exceeds the threshold, by name
            import re
            import biogeme.biogeme as bio
            import biogeme.database as db
            import biogeme.expressions as ex
            from biogeme.parameters import Parameters
            first = ['a_first', 'AA_TIME', 'a0'][a[0]]
            p1, p2, p0 = ex.Beta('sing_b1', 0.0, None, None, 0), ex.Beta('sing_b2', 0.0, None, None, 0), ex.Beta(first, 0.0, None, None, 0)
            x0 = ex.Variable('x0')
            d1 = p1 + p2 - x0
            d2 = p1 - p2
            d0 = p0 - 1.0
            ll = -(d1 * d1) - 0.0005 * (d2 * d2) - d0 * d0
            p = Parameters()
            p.set_value('save_iterations', False)
            p.set_value('generate_html', False)
            p.set_value('generate_pickle', False)
            p.set_value('identification_threshold', 0.2)
            p.set_value('optimization_algorithm', 'simple_bounds')
            B = bio.BIOGEME(db.Database('sing', self.table.copy()), ll, parameters=p)
            B.modelName = 'sing'
            r = B.estimate()
            html = r.get_html(only_robust=False)
            names_r = list(r.data.betaNames)
            vec = [float(v) for v in r.data.smallestEigenVector]
            want = sorted(n_ for n_, v_ in zip(names_r, vec) if abs(v_) > 0.2)
            if abs(float(r.data.smallestEigenValue)) <= 0.2:
                sec = html.split('Variables involved', 1)
                if len(sec) < 2:
                    ctx.fail('I03.results', 'the report of an almost singular model has no "Variables involved" section')
                listed = sorted(m_.strip() for m_ in re.findall(r'<td> \*</td><td> ([^<]+)</td>', sec[1].split('</table>')[0]))
                if listed != want:
                    ctx.fail('I03.results', f'the report names {listed} as the parameters involved in the singular direction; '
                                            f'the eigenvector {dict(zip(names_r, vec))} involves {want}')
                ctx.probe('parameters involved in a singularity named in the report')
            ctx.log(kind, first, fhex(float(r.data.smallestEigenValue)))
        elif kind == 'CATALOG_BETA':
            # a catalog whose selected alternative is a parameter as such: values given by name reach it like any other
            import biogeme.biogeme as bio
            import biogeme.database as db
            import biogeme.expressions as ex
            from biogeme.catalog import Catalog
            from biogeme.parameters import Parameters
            mode = a[0]
            cb = ex.Beta('cat_plain', 0.1, None, None, 0)
            cs = ex.Beta('cat_scaled', 0.2, None, None, 0)
            other = ex.Beta('cat_other', 0.3, None, None, 0)
            cat = Catalog.from_dict('cat_of_betas', {'plain': cb, 'scaled': 2.0 * cs})
            f = cat * ex.Variable('x0') + other
            d_ = db.Database('catb', self.table.copy())
            xs = [float(v) for v in self.table['x0'].to_list()]
            new = {'cat_plain': 0.75, 'cat_other': -0.5}
            if mode % 2:
                p = Parameters()
                p.set_value('save_iterations', False)
                B = bio.BIOGEME(d_, {'p': f}, parameters=p)
                B.change_init_values(new)
                got = [float(v) for v in B.simulate(B.get_beta_values())['p'].to_list()]
            else:
                f.change_init_values(new)
                got = [float(v) for v in f.get_value_c(database=d_, prepare_ids=True)]
            for i_, (g_, x_) in enumerate(zip(got, xs)):
                w_ = 0.75 * x_ - 0.5
                if abs(g_ - w_) > 1e-12 * max(1.0, abs(w_)):
                    ctx.fail('I03.store', f'catalog whose selected alternative is the parameter cat_plain: after '
                                          f'change_init_values({new}) row {i_} evaluates to {g_!r}, with the named values it is {w_!r}')
            ctx.probe('by-name write through a catalog whose selected alternative is a parameter')
            ctx.log(kind, mode)
        elif kind == 'RANDOM_INIT':
            # random starting values: each parameter's value is drawn inside ITS OWN bounds (a missing bound is replaced
            # by +/- the given number); fixed parameters are untouched; then the stored values are written back by name
            dflt = a[0]
            for u in self.U:
                u.b.set_random_init_values(default_bound=dflt)
                vals = u.b.get_beta_values()
                for n in self.free_names():
                    bd = self.store[n]['bounds'] or [None, None]
                    lo = -dflt if bd[0] is None else bd[0]
                    hi = dflt if bd[1] is None else bd[1]
                    for what, v_ in (('get_beta_values()', float(vals[u.nm(n)])), ('the formula', float(u.betas[n].initValue))):
                        if not (min(lo, hi) - 1e-12 <= v_ <= max(lo, hi) + 1e-12):
                            ctx.fail('I03.bounds', f'set_random_init_values({dflt}): {what} holds {n} ({u.nm(n)}) = {v_!r}, '
                                                   f'outside its own interval [{lo}, {hi}]')
                for n, st in self.store.items():
                    if not st['free'] and float(u.betas[n].initValue) != st['value']:
                        ctx.fail('I03.partial', f'set_random_init_values changed the fixed parameter {n} ({u.nm(n)})')
                u.b.change_init_values({u.nm(n): self.store[n]['value'] for n in self.free_names()})
            ctx.count('by_name_writes')
            self.check_store('set_random_init_values followed by change_init_values')
            ctx.log(kind, dflt)
        elif kind == 'DUP_KIND':
            import biogeme.biogeme as bio
            import biogeme.database as db
            import biogeme.expressions as ex
            from biogeme.parameters import Parameters
            col = ['x0', 'one', 'w', 'choice', 'grp'][a[0] % 5]
            if col not in self.table.columns:
                col = 'one'
            for u in self.U:
                p = Parameters()
                p.set_value('save_iterations', False)
                try:
                    bad = u.ll + ex.Beta(col, 0.1, None, None, 0) * 0.0
                    b = bio.BIOGEME(db.Database('dup', self.table.copy()), bad, parameters=p)
                    v = b.calculate_likelihood([0.1] * len(b.free_beta_names), scaled=False)
                except Exception as e:
                    from ..core import _classify_exception
                    where, text = _classify_exception(e)
                    if where == 'harness':
                        raise
                    ctx.count('refused')
                else:
                    ctx.fail('I03.dup', f'a parameter named like the data column {col} was accepted (likelihood {v!r})')
            ctx.log(kind, col)
        else:
            raise RuntimeError(kind)
        ctx.state([kind, sorted((n, s['free'], round(s['value'], 6)) for n, s in self.store.items())])

    def _feasible(self, n, v):
        bd = self.store[n]['bounds']
        if bd:
            if bd[0] is not None:
                v = max(v, bd[0])
            if bd[1] is not None:
                v = min(v, bd[1])
        return v

    def ref_ll_unweighted(self, vals):
        rows = specs.ref_loglike(self.cfg, self.table, vals, per_row=True)
        return sum(rows), rows, None

    def check_store(self, after):
        tol = self.tol
        """Every read reflects the store, by name, in both universes; bounds stay attached."""
        ctx = self.ctx
        for u in self.U:
            gbv = u.b.get_beta_values()
            for n, s in self.store.items():
                un = u.nm(n)
                if not s['free']:
                    # get_beta_values() reports the free parameters; fixed ones are read from the formula
                    if abs(u.betas[n].initValue - s['value']) > tol * max(1.0, abs(s['value'])) or u.betas[n].status == 0:
                        ctx.fail('I03.fixed', f'after {after}: fixed parameter {n} ({un}) holds '
                                              f'{u.betas[n].initValue!r} (status {u.betas[n].status}), the store {s["value"]!r}')
                    if un in gbv:
                        ctx.fail('I03.store', f'after {after}: get_beta_values() lists the fixed parameter {n} ({un})')
                    continue
                if un not in gbv:
                    ctx.fail('I03.store', f'after {after}: get_beta_values() lacks {n} ({un})')
                if abs(float(gbv[un]) - s['value']) > tol * max(1.0, abs(s['value'])):
                    ctx.fail('I03.store', f'after {after}: get_beta_values()[{un}] = {float(gbv[un])!r}, the store holds '
                                          f'{n} = {s["value"]!r}')
            for an_, tw_ in getattr(u, 'twins', []):
                s_ = self.store[an_]
                if abs(tw_.initValue - s_['value']) > tol * max(1.0, abs(s_['value'])) or (tw_.status == 0) != s_['free']:
                    ctx.fail('I03.partial', f'after {after}: a second Beta object named {u.nm(an_)} holds {tw_.initValue!r} '
                                            f'(status {tw_.status}), the store says {s_["value"]!r} / free={s_["free"]}')
            free = sorted(u.nm(n) for n in self.free_names())
            if sorted(u.b.free_beta_names) != free:
                ctx.fail('I03.store', f'after {after}: free parameters {u.b.free_beta_names}, the store says {free}')
            if list(u.b.free_beta_names) != sorted(u.b.free_beta_names):
                ctx.fail('I03.store', f'reported list of free parameters is not sorted: {u.b.free_beta_names}')
            for n in self.free_names():
                bd = self.store[n]['bounds'] or [None, None]
                got = u.b.get_bounds_on_beta(u.nm(n))
                if tuple(got) != tuple(bd):
                    ctx.fail('I03.bounds', f'after {after}: bounds of {n} ({u.nm(n)}) are {got}, declared {bd}')
