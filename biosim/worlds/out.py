"""W-out: histories of output generation in one directory (property C14): fresh names,
no overwrite (also at every FS event = virtual crash point, under I/O faults and real
crashes), pickle round trip of results under a fixed clock, TOML round trip, every
parameter listed in every report."""

from __future__ import annotations

import math
import os
import random
import re

from ..core import fhex
from ..fs import FsSeam, snapshot, read_bytes, REAL_OPEN, REAL_REMOVE
from .. import specs

name = 'out'
RAISE_ORACLE = 'I14.raise'
MODELS = ['m', 'm_b', 'mm', 'model one', 'logit.v2']
EXTS = ['html', 'pickle', 'tex', 'F12']


def make_config(rng, profile, tier):
    cfg = specs.gen_model_config(rng, k_max=4, fancy_names=False, allow_cliff=False)
    cfg['names'] = rng.sample(['asc', 'b_time', 'b_cost', 'beta', 'BETA', 'b', 'b1', 'b10', 'mu', 'lambda',
                               'a_b', 'theta1', 'beta_time_car', 'beta_time_train', 'beta_time_carpool'], cfg['K'])
    if rng.random() < 0.02:
        # a model with more parameters than a report is likely to truncate (printed tables, "first n" limits)
        k = rng.randrange(61, 76)
        cfg.update(family='quad', K=k, J=1, N=4, names=[f'p{i:02d}' for i in range(k)], init=[0.0] * k,
                   assign=[[0, rng.randrange(0, cfg['C'] + 1)] for _ in range(k)],
                   coef=[round(rng.uniform(-1.5, 1.5), 2) for _ in range(k)], bounds=[None] * k, fixed=[])
    cfg['chunk'] = rng.choice([None, None, None, 64, 512, 4096])
    cfg['threads'] = rng.choice([1, 2, 0])
    cfg['ident'] = rng.choice([1e-5, 1e-5, 10.0, 0.0])      # buggify: flips the "not identified" branch of the reports
    cfg['only_robust'] = rng.random() < 0.5
    cfg['max_iter'] = rng.choice([60, 60, 60, 1])
    if cfg['family'] == 'quad' and cfg['K'] <= 10 and rng.random() < 0.3:
        # an estimate of very small magnitude (a cost coefficient per cent, say): every report still gives its value
        cfg['coef'][0] = 5.12e-05
    # database names: anything the file system accepts
    cfg['dbname'] = rng.choice(['d', 'data set', 'swiss', 'survey:2020', 'what?', 'a*b', 'x|y', 'q<1>'])
    return cfg


def _toml_values(rng):
    """Admissible values for a parameter file (name -> value)."""
    from_bool = lambda: rng.choice([True, False])
    vals = {
        'identification_threshold': rng.choice([1e-5, 1e-300, 0.0, 1e308, -0.0, 0.1, 12345.678, 1e-7, 3]),
        'only_robust_stats': from_bool(), 'generate_html': from_bool(), 'generate_pickle': from_bool(),
        'number_of_threads': rng.choice([0, 1, 2, 7, 64]),
        'number_of_draws': rng.choice([1, 100, 10 ** 6]),
        'missing_data': rng.choice([99999, -1, 0, -999, 1.5, 1e10]),
        'seed': rng.choice([0, 1, 90267, 2 ** 31 - 1]),
        'bootstrap_samples': rng.choice([0, 1, 100]),
        'large_data_set': rng.choice([0, 100000]),
        'max_number_parameters_to_report': rng.choice([0, 15, 1000]),
        'save_iterations': from_bool(),
        'maximum_number_catalog_expressions': rng.choice([1, 100]),
        'optimization_algorithm': rng.choice(['automatic', 'scipy', 'LS-newton', 'TR-newton', 'LS-BFGS', 'TR-BFGS',
                                              'simple_bounds', 'simple_bounds_newton', 'simple_bounds_BFGS']),
        'second_derivatives': rng.choice([0.0, 1.0, 0.5, 1e-300]),
        'tolerance': rng.choice([1e-6, 0.0001220703125, 1e-300, 7.0]),
        'max_iterations': rng.choice([1, 1000, 10 ** 9]),
        'infeasible_cg': from_bool(),
        'initial_radius': rng.choice([1, 1.0, 0.001, 1e10]),
        'steptol': rng.choice([1e-5, 1e-300, 2.5]),
        'enlarging_factor': rng.choice([10, 2.5, 1e5]),
        'dogleg': from_bool(),
        'maximum_number_parameters': rng.choice([1, 50]),
        'number_of_neighbors': rng.choice([0, 20]),
        'largest_neighborhood': rng.choice([0, 20]),
        'maximum_attempts': rng.choice([0, 100]),
        # a parameter like the others as far as files are concerned (a file written by another release holds another value)
        'version': rng.choice(['3.2.12', '3.2.14a', 'development version of 2024-07']),
    }
    keys = sorted(vals)
    chosen = rng.sample(keys, rng.randrange(1, len(keys) + 1))
    return {k: vals[k] for k in chosen}


def make_ops(rng, cfg, profile, tier):
    n = rng.randrange(4, 22) if cfg['K'] <= 10 else rng.randrange(3, 6)
    ops = []
    for _ in range(n):
        r = rng.random()
        mi = rng.randrange(len(MODELS)) if rng.random() < 0.4 else 0
        if cfg['K'] > 10:
            # wide model: estimate once or twice, write and reload the reports
            kind = rng.choice(['ESTIMATE', 'WRITE_HTML', 'WRITE_LATEX', 'WRITE_F12', 'WRITE_PICKLE', 'LOAD', 'DUMP_DB'])
            if kind == 'ESTIMATE' or not ops:
                ops.append({'op': 'ESTIMATE', 'a': [0, True, True, 0]})
            elif kind in ('DUMP_DB',):
                ops.append({'op': kind, 'a': []})
            elif kind == 'LOAD':
                ops.append({'op': kind, 'a': [rng.randrange(1 << 16)]})
            else:
                ops.append({'op': kind, 'a': [rng.randrange(1 << 16), rng.random() < 0.5]})
            continue
        if r < 0.22:
            boot = rng.choice([0, 0, 2]) if cfg['K'] >= 2 else 0
            ops.append({'op': 'ESTIMATE', 'a': [mi, rng.random() < 0.6, rng.random() < 0.7, boot]})
        elif r < 0.40:
            ops.append({'op': rng.choice(['WRITE_HTML', 'WRITE_LATEX', 'WRITE_F12', 'WRITE_PICKLE']),
                        'a': [rng.randrange(1 << 16), rng.random() < 0.5]})
        elif r < 0.47:
            ops.append({'op': 'DUMP_DB', 'a': []})
        elif r < 0.50:
            ops.append({'op': 'VALIDATE', 'a': [rng.randrange(1 << 16), rng.choice([2, 3])]})
        elif r < 0.52:
            ops.append({'op': 'CATALOG', 'a': [mi, rng.random() < 0.5]})
        elif r < 0.58:
            ops.append({'op': 'FLATTEN_SAVE', 'a': []})
        elif r < 0.70:
            ops.append({'op': 'LOAD', 'a': [rng.randrange(1 << 16)]})
        elif r < 0.75:
            ops.append({'op': 'RECYCLE', 'a': [mi]})
        elif r < 0.82:
            ops.append({'op': 'TOML', 'a': [], 'values': _toml_values(rng),
                        'spelling': rng.choice(['True', 'true', 'Yes', 'yes']),
                        'values2': _toml_values(rng) if rng.random() < 0.6 else None,
                        'fname': rng.choice(['params.toml', 'params.toml', '.biogeme.toml', 'my params.toml', '.est.toml']),
                        'user_section': rng.random() < 0.3})
        elif r < 0.92:
            ops.append({'op': 'PLANT', 'a': [mi, rng.choice(EXTS + ['dat', 'csv']),
                                             rng.choice(['base', 'gap', 'many', 'dir', 'empty', 'other', 'first3'])]})
        elif r < 0.935:
            ops.append({'op': 'CLEAN', 'a': [rng.random() < 0.5]})
        elif r < 0.96:
            ops.append({'op': 'ADVANCE_CLOCK', 'a': [rng.randrange(0, 21600)]})
        else:
            ops.append({'op': 'BACKUP', 'a': [rng.randrange(1 << 16), rng.random() < 0.5]})
    return ops


def fault_plans(rng, spec, base, tier):
    log = [r for r in base['fs']['log'] if r[0] == 0]
    allev = [(r[1], r[2]) for r in log]
    writes = [(r[1], r[2]) for r in log if r[3] == 'write' and r[5] > 1]
    plans = []
    if not allev:
        return plans
    if spec['config']['K'] > 10:
        return []   # wide models are slow: they exist for the report checks, faults are covered by the small ones
    for _ in range(3 if tier == 'quick' else 10):
        op, ev = allev[rng.randrange(len(allev))]
        plans.append([{'kind': 'crash', 'op': op, 'event': ev}])
    for _ in range(2 if tier == 'quick' else 6):
        op, ev = allev[rng.randrange(len(allev))]
        plans.append([{'kind': rng.choice(['enospc', 'eio']), 'op': op, 'event': ev}])
    if writes:
        op, ev = writes[rng.randrange(len(writes))]
        plans.append([{'kind': 'torn', 'op': op, 'event': ev, 'q': rng.choice([0.0, 0.5, 0.99])}])
        op, ev = writes[rng.randrange(len(writes))]
        plans.append([{'kind': 'short', 'op': op, 'event': ev, 'q': 0.5}])
    plans.append([{'kind': 'crash@op', 'op': rng.randrange(len(spec['ops']))}])
    return plans


def died_is_outcome(spec, res):
    return False


def pinned_ops(spec):
    return set()


def simplifications(spec):
    if spec['config'].get('chunk'):
        c = dict(spec)
        c['config'] = dict(spec['config'], chunk=None)
        yield c


def nontrivial(spec, res):
    p = res.get('probes', {})
    return p.get('second file of one kind for one model', 0) >= 1 or p.get('planted name collided', 0) >= 1 \
        or spec['config']['K'] > 10


EXEMPT = re.compile(r'^(__.*\.iter(\.tmp)?|biogeme\.toml)$')


def _num(s):
    try:
        return float(s)
    except ValueError:
        return None


def find_value(text: str, pname: str, sig: int):
    """Tolerant report parser: lines/rows mentioning the parameter name as a whole token,
    first number after the name."""
    pat = re.compile(r'(?<![\w])' + re.escape(pname) + r'(?![\w])')
    esc = re.compile(r'(?<![\w])' + re.escape(pname.replace('_', r'\_')) + r'(?![\w])')
    out = []
    for line in re.split(r'\n|</tr>', text):
        m = pat.search(line) or esc.search(line)
        if not m:
            continue
        rest = re.sub(r'<[^>]*>', ' ', line[m.end():])
        for tok in re.findall(r'[-+]?(?:\d+\.?\d*|\.\d+)(?:[eE][-+]?\d+)?|nan|inf', rest):
            v = _num(tok)
            if v is not None:
                out.append(v)
                break
    return out


class Session:
    def __init__(self, ctx):
        from .. import env
        env.import_library()
        import numpy as np
        self.np = np
        self.ctx = ctx
        self.cfg = ctx.config
        self.table = specs.make_table(self.cfg)
        # a column of numbers that need all their digits (ratios, logarithms): no model reads it, data dumps hold it
        self.table['ratio'] = [math.log(2.0 + i) / 7.0 for i in range(len(self.table))]
        self.results = []   # dicts: obj, model, instant
        self.pickles = []   # dicts: file, snap, instant, model, seq
        self.planted = set()
        self.last_toml = None
        self.seq = 0
        self.exempt_now: set[str] = set()
        self.pre = None
        carry = ctx.carry or {}
        fs = FsSeam(ctx.scratch, chunk=self.cfg.get('chunk'))
        fs.set_faults(ctx.faults)
        fs.on_event = self.on_fs_event
        fs.on_crash = ctx.crash
        ctx.fs = fs
        fs.begin_op(-1 - ctx.lifetime)
        fs.install()
        if ctx.lifetime > 0:
            ctx.count('restarts')
            pre = carry.get('pre')
            if pre is not None:
                self._check_no_overwrite(pre, snapshot(ctx.scratch), carry.get('exempt', []),
                                         'after a process stop', crashed=True)
            self.planted = set(carry.get('planted', []))
            self.pickles = [p for p in carry.get('pickles', []) if os.path.isfile(p['file'])]
            self.seq = carry.get('seq', 0)
            # pickles written by earlier lifetimes can still be loaded, but their snapshots died
            # with the process: they are re-taken from the file itself (self-consistency only)
            ctx.probe('restart in a directory with earlier output')

    # -- helpers --------------------------------------------------------------
    def export_carry(self):
        return {'pre': self.pre, 'exempt': sorted(self.exempt_now), 'planted': sorted(self.planted),
                'pickles': self.pickles, 'seq': self.seq}

    def _biogeme(self, model, html=False, pick=False, boot=0):
        import biogeme.biogeme as bio
        import biogeme.database as db
        from biogeme.parameters import Parameters
        ll, _, _ = specs.build_formulas(self.cfg, cliff=False)
        d = db.Database(self.cfg['dbname'], self.table.copy())
        p = Parameters()
        p.set_value('generate_html', html)
        p.set_value('generate_pickle', pick)
        p.set_value('number_of_threads', self.cfg['threads'] or 0)
        # buggify: some estimations are stopped before they converge (their record says so, also after a reload)
        p.set_value('max_iterations', self.cfg.get('max_iter', 60))
        p.set_value('identification_threshold', self.cfg.get('ident', 1e-5))
        p.set_value('only_robust_stats', self.cfg.get('only_robust', True))
        if boot:
            p.set_value('bootstrap_samples', boot)
        b = bio.BIOGEME(d, ll, parameters=p)
        b.modelName = model
        return b

    def _check_no_overwrite(self, pre, post, exempt, when, crashed=False):
        for fname, meta in pre.items():
            if EXEMPT.match(fname) or fname in exempt:
                continue
            now = post.get(fname)
            if now is None:
                self.ctx.fail('I14.1', f'{fname} existed before the operation and is gone {when}')
            if tuple(now) != tuple(meta):
                self.ctx.fail('I14.1', f'{fname} existed before the operation and was replaced or modified '
                                       f'{when} ({meta[2]} B before, {now[2]} B now)')

    def on_fs_event(self, seam, kind, path, nbytes, info):
        if self.pre is None:
            return
        self.ctx.count('fs_checks')
        base = os.path.basename(str(path))
        if kind in ('open', 'replace', 'rename', 'remove'):
            # only these events can destroy earlier content
            post = snapshot(self.ctx.scratch)
            self._check_no_overwrite(self.pre, post, self.exempt_now,
                                     f'(seen right after FS event #{seam.op_event - 1}: {kind} {base})')

    def _snap_reports(self, r):
        out = {}
        out['betas'] = {k: fhex(v) for k, v in r.get_beta_values().items()}
        out['converged'] = bool(r.algorithm_has_converged())
        if not out['converged']:
            self.ctx.probe('record of an estimation that did not converge')
        gs = r.get_general_statistics()
        out['stats'] = {k: (fhex(v[0]) if isinstance(v[0], (int, float)) or hasattr(v[0], 'hex') else str(v[0]), v[1])
                        for k, v in gs.items()}
        out['params'] = repr(r.get_estimated_parameters(only_robust=False).to_dict())
        out['f12'] = r.get_f12()
        out['str'] = str(r)
        out['short'] = r.short_summary()
        if self.cfg['K'] > 10:
            # wide model: the pairwise tables cost seconds each; one full report is enough
            out['html_a'] = r.get_html(False)
            return out
        out['corr'] = repr(r.get_correlation_results().to_dict())
        out['varcovar'] = repr(r.get_var_covar().to_dict())
        out['robvarcovar'] = repr(r.get_robust_var_covar().to_dict())
        bvc = r.get_bootstrap_var_covar()
        out['bootvarcovar'] = repr(bvc.to_dict()) if bvc is not None else None
        out['html_r'] = r.get_html(True)
        out['html_a'] = r.get_html(False)
        out['latex'] = r.get_latex()
        return out

    def _listing(self, text, r, what, sig):
        vals = r.get_beta_values()
        for pname, v in vals.items():
            label = pname[:10] if what == 'F12' else pname
            found = find_value(text, label, sig)
            tol = (5.1e-3 if sig == 3 else 1e-11) * abs(v) + 1e-300
            if not any(abs(f - v) <= tol for f in found):
                self.ctx.fail('I14.5', f'{what} report does not list parameter {pname} with its value {v!r} '
                                       f'(found {found[:3]})')

    def _lib(self, oracle, fn, *a, **k):
        """A library call the property requires to succeed (unless an I/O fault was injected)."""
        try:
            return True, fn(*a, **k)
        except OSError as e:
            fired = self.ctx.fs.fired
            if fired.get('enospc') or fired.get('eio'):
                self.ctx.probe('I/O error inside an output write')
                return False, e
            if isinstance(e, IsADirectoryError):
                self.ctx.probe('directory squats the next free name')
                return False, e
            self.ctx.fail(oracle, f'{getattr(fn, "__name__", fn)} raised {type(e).__name__}: {e}')
        except Exception as e:
            if self.ctx.pending is not None:
                raise self.ctx.pending
            from ..core import _classify_exception
            where, text = _classify_exception(e)
            if where == 'harness':
                raise
            self.ctx.fail(oracle, f'{getattr(fn, "__name__", fn)} raised {type(e).__name__}: {e}')

    def _fresh(self, reported, pre, what):
        if reported is None:
            self.ctx.fail('I14.2', f'{what}: no file name reported')
        if reported in pre:
            self.ctx.fail('I14.2', f'{what}: reported name {reported} existed before the operation')
        if not os.path.isfile(os.path.join(self.ctx.scratch, reported)):
            self.ctx.fail('I14.2', f'{what}: reported file {reported} does not exist')
        stem = reported.rsplit('.', 1)
        if '~' in reported:
            self.ctx.probe('fresh-name loop iterated')
            m = re.search(r'~(\d+)\.', reported)
            if m and int(m.group(1)) >= 1:
                self.ctx.probe('fresh-name loop iterated >= 2')
            self.ctx.probe('second file of one kind for one model')
        if any(p.startswith(stem[0]) for p in self.planted):
            self.ctx.probe('planted name collided')

    # -- operations ---------------------------------------------------------------
    def apply(self, i, op):
        ctx = self.ctx
        kind, a = op['op'], op['a']
        ctx.count('op:' + kind)
        from ..env import CLOCK
        self.exempt_now = set()
        self.pre = snapshot(ctx.scratch)
        pre = self.pre
        np = self.np
        if kind == 'ESTIMATE':
            model = MODELS[a[0]]
            b = self._biogeme(model, html=a[1], pick=a[2], boot=a[3])
            ok, r = self._lib('I14.raise', b.estimate, run_bootstrap=bool(a[3]))
            if ok:
                rec = {'obj': r, 'model': model, 'instant': CLOCK.t}
                self.results.append(rec)
                if a[1]:
                    self._fresh(r.data.htmlFileName, pre, 'estimate/html')
                    self._listing(read_bytes(r.data.htmlFileName).decode('utf-8'), r, 'HTML', 3)
                if a[2]:
                    self._fresh(r.data.pickleFileName, pre, 'estimate/pickle')
                    self._note_pickle(r.data.pickleFileName, r, model)
                self._listing(str(r), r, 'printed', 3)
                ctx.log(kind, model, fhex(r.data.logLike), r.data.htmlFileName, r.data.pickleFileName)
            else:
                ctx.log(kind, model, 'io-error')
        elif kind in ('WRITE_HTML', 'WRITE_LATEX', 'WRITE_F12', 'WRITE_PICKLE'):
            if not self.results:
                ctx.log(kind, 'skip')
            else:
                rec = self.results[a[0] % len(self.results)]
                r = rec['obj']
                if kind == 'WRITE_HTML':
                    ok, _ = self._lib('I14.raise', r.write_html, a[1])
                    fn, what, sig = r.data.htmlFileName, 'HTML', 3
                elif kind == 'WRITE_LATEX':
                    ok, _ = self._lib('I14.raise', r.write_latex)
                    fn, what, sig = r.data.latexFileName, 'LaTeX', 3
                elif kind == 'WRITE_F12':
                    ok, _ = self._lib('I14.raise', r.write_f12, a[1])
                    fn, what, sig = r.data.F12FileName, 'F12', 12
                else:
                    ok, _ = self._lib('I14.raise', r.write_pickle)
                    fn, what, sig = r.data.pickleFileName, 'pickle', 0
                if ok:
                    self._fresh(fn, pre, kind)
                    if kind == 'WRITE_PICKLE':
                        self._note_pickle(fn, r, rec['model'])
                    else:
                        self._listing(read_bytes(fn).decode('utf-8'), r, what, sig)
                ctx.log(kind, fn if ok else 'io-error')
        elif kind == 'DUMP_DB':
            import biogeme.database as db
            d = db.Database(self.cfg['dbname'], self.table.copy())
            ok, fn = self._lib('I14.raise', d.dump_on_file)
            if ok:
                self._fresh(fn, pre, 'dump_on_file')
                import pandas as pd
                back = pd.read_csv(fn, sep='\t', index_col='__rowId', float_precision='round_trip')
                if list(back.columns) != list(self.table.columns) or not np.array_equal(
                        back.to_numpy(dtype=float), self.table.to_numpy(dtype=float)):
                    ctx.fail('I14.3d', f'{fn} does not read back as the dumped table')
            ctx.log(kind, fn if ok else 'io-error')
        elif kind == 'VALIDATE':
            model = MODELS[a[0] % len(MODELS)]
            b = self._biogeme(model, html=False, pick=True)
            b.biogeme_parameters.set_value('save_iterations', False)
            ok, r = self._lib('I14.raise', b.quick_estimate)
            if ok:
                ok2, folds = self._lib('I14.raise', b.database.split, a[1])
                if ok2:
                    ok3, v = self._lib('I14.raise', b.validate, r, folds)
                    post = snapshot(ctx.scratch)
                    new = [f for f in post if f not in pre and f.startswith(f'{model}_validation')]
                    if ok3 and len(new) != 1:
                        ctx.fail('I14.2', f'validate() produced {new} as new validation files')
                    ctx.log(kind, model, sorted(f for f in post if f not in pre))
        elif kind == 'CATALOG':
            # estimate_catalog: one estimation per configuration, each writing its own report files
            import biogeme.expressions as ex
            from biogeme.catalog import Catalog
            from biogeme.expressions import NamedExpression
            model = MODELS[a[0]]
            b0 = self._biogeme(model, html=True, pick=True)
            extra = Catalog('extra', [NamedExpression('none', ex.Numeric(0)),
                                      NamedExpression('sq', ex.Beta('bsq', 0, None, None, 0) * ex.Variable('x0') * ex.Variable('x0') * 0.01)])
            import biogeme.biogeme as bio
            import biogeme.database as db
            b = bio.BIOGEME(db.Database(self.cfg['dbname'], self.table.copy()), b0.log_like - extra * extra,
                            parameters=b0.biogeme_parameters)
            b.modelName = model
            ok, res_ = self._lib('I14.raise', b.estimate_catalog, quick_estimate=a[1])
            post = snapshot(ctx.scratch)
            new = sorted(f for f in post if f not in pre)
            if ok:
                if len(res_) != 2:
                    ctx.fail('I14.2', f'estimate_catalog returned {len(res_)} results for 2 configurations')
                if not a[1]:
                    for cid, r in res_.items():
                        for fn in (r.data.htmlFileName, r.data.pickleFileName):
                            self._fresh(fn, pre, f'estimate_catalog [{cid}]')
            ctx.log(kind, model, new)
        elif kind == 'FLATTEN_SAVE':
            import biogeme.database as db
            t = self.table.copy().sort_values('grp', kind='stable').reset_index(drop=True)
            d = db.Database(self.cfg['dbname'], t)
            d.panel('grp')
            ok, flat = self._lib('I14.raise', d.generate_flat_panel_dataframe, save_on_file=True)
            post = snapshot(ctx.scratch)
            new = [f for f in post if f not in pre]
            if ok and not any('flatten' in f for f in new):
                # the file must have been written somewhere new (no name is reported by the API)
                ctx.fail('I14.2', 'generate_flat_panel_dataframe(save_on_file=True) created no new file')
            if any('flatten' in f for f in pre):
                ctx.probe('second file of one kind for one model')
            ctx.log(kind, sorted(new))
        elif kind == 'LOAD':
            if not self.pickles:
                ctx.log(kind, 'skip')
            else:
                import biogeme.results as res
                pk = self.pickles[a[0] % len(self.pickles)]
                keep = CLOCK.t
                CLOCK.t = pk['instant']
                try:
                    ok, r2 = self._lib('I14.3.raise', res.bioResults, pickle_file=pk['file'],
                                      identification_threshold=self.cfg.get('ident', 1e-5))
                    if ok:
                        snap2 = self._snap_reports(r2)
                        for key, val in pk['snap'].items():
                            if snap2.get(key) != val:
                                ctx.fail('I14.3', f'{pk["file"]} reloaded: {key} differs from what the writing '
                                                  f'object reported ({self._diff(val, snap2.get(key))})')
                        ctx.probe('pickle reloaded and compared')
                finally:
                    CLOCK.t = keep
                ctx.log(kind, pk['file'])
        elif kind == 'RECYCLE':
            model = MODELS[a[0]]
            mine = [p for p in self.pickles if p['model'] == model and not p.get('renamed')]
            others = [f for f in pre if (f == f'{model}.pickle' or f.startswith(f'{model}~')) and f.endswith('.pickle')]
            if not mine or len(others) != len(mine) or len(mine) > 100:
                ctx.log(kind, 'skip')
            else:
                b = self._biogeme(model)
                ok, r = self._lib('I14.3.raise', b.estimate, recycle=True)
                if ok:
                    # which of the model's pickles is taken is not constrained by the property;
                    # what comes back must be one of them, intact
                    got = {k: fhex(v) for k, v in r.get_beta_values().items()}
                    match = [p for p in mine if p['file'] == r.data.pickleFileName]
                    if not match or match[0]['snap']['betas'] != got:
                        ctx.fail('I14.3r', f'recycled estimation returned results ({r.data.pickleFileName}) that '
                                           f'are not those saved for model {model}')
                    if len(mine) >= 2:
                        ctx.probe('recycle with >= 2 pickles')
                ctx.log(kind, model)
        elif kind == 'TOML':
            from biogeme.parameters import Parameters
            # the file name is the user's: hidden files and names with blanks are ordinary names
            tfile = op.get('fname') or 'params.toml'
            user = bool(op.get('user_section'))

            def fresh():
                # optionally with a user-defined section that reuses two names of section SimpleBounds (the API identifies
                # a parameter by name AND section)
                obj_ = Parameters()
                if user:
                    from biogeme.default_parameters import ParameterTuple
                    import biogeme.check_parameters as cp
                    obj_.add_parameter(ParameterTuple(name='tolerance', value=1.0e-3, type=float, section='MyAlgorithm',
                                                      description='float: tolerance of my algorithm', check=(cp.is_number,)))
                    obj_.add_parameter(ParameterTuple(name='max_iterations', value=50, type=int, section='MyAlgorithm',
                                                      description='int: iterations of my algorithm',
                                                      check=(cp.is_integer, cp.is_positive)))
                return obj_

            def setv(obj_, k_, v_):
                if user and k_ in ('tolerance', 'max_iterations'):
                    obj_.set_value(k_, v_, section='SimpleBounds')
                else:
                    obj_.set_value(k_, v_)
            p = fresh()
            for k, v in op['values'].items():
                setv(p, k, v)
            if user:
                p.set_value('tolerance', 0.25, section='MyAlgorithm')
                p.set_value('max_iterations', 7, section='MyAlgorithm')
                ctx.probe('parameter names shared by two sections')
            self.exempt_now = {tfile}
            ok, _ = self._lib('I14.4.raise', p.dump_file, tfile)
            if ok:
                if op.get('spelling') and op['spelling'] != 'True':
                    # the same file with booleans in another accepted spelling
                    txt = read_bytes(tfile).decode('utf-8').replace('"True"', f'"{op["spelling"]}"')
                    no = {'True': 'False', 'true': 'false', 'Yes': 'No', 'yes': 'no'}[op['spelling']]
                    txt = txt.replace('"False"', f'"{no}"')
                    with REAL_OPEN(tfile, 'w', encoding='utf-8') as f:
                        f.write(txt)
                q = fresh()
                ok2, _ = self._lib('I14.4.raise', q.read_file, tfile)
                if ok2:
                    for key, tup in p.all_parameters_dict.items():
                        want = tup.value
                        got = q.get_value(key.name, key.section)
                        same = (got == want)
                        if isinstance(want, bool) != isinstance(got, bool):
                            same = False
                        if not same:
                            ctx.fail('I14.4', f'parameter {key.name} [{key.section}] dumped as {want!r} '
                                              f'reads back as {got!r}')
                    ctx.probe('toml round trip compared')
                    if op.get('values2'):
                        # second generation: the object that was READ is changed and dumped again (and so is the
                        # object that was dumped): the file must hold the values of the object at the time of the dump
                        for who, obj in (('read', q), ('dumped', p)):
                            for k, v in op['values2'].items():
                                setv(obj, k, v)
                            self.exempt_now = {tfile}
                            ok3, _ = self._lib('I14.4.raise', obj.dump_file, tfile)
                            if not ok3:
                                break
                            r3 = fresh()
                            ok4, _ = self._lib('I14.4.raise', r3.read_file, tfile)
                            if not ok4:
                                break
                            for key, tup in obj.all_parameters_dict.items():
                                want = tup.value
                                got = r3.get_value(key.name, key.section)
                                if got != want or isinstance(want, bool) != isinstance(got, bool):
                                    ctx.fail('I14.4', f'parameter {key.name} [{key.section}] of an object that had been '
                                                      f'{who} before, changed and dumped as {want!r}, reads back as {got!r}')
                            ctx.probe('toml second generation compared')
            ctx.log(kind, len(op['values']))
        elif kind == 'PLANT':
            model, ext, pat = MODELS[a[0]], a[1], a[2]
            stem = model
            if ext == 'dat':
                stem = f"{self.cfg['dbname']}_dumped"
            elif ext == 'csv':
                stem = f"{self.cfg['dbname']}_flatten"
            names = []
            if pat == 'base':
                names = [f'{stem}.{ext}']
            elif pat == 'gap':
                names = [f'{stem}.{ext}', f'{stem}~00.{ext}', f'{stem}~03.{ext}']
            elif pat == 'first3':
                names = [f'{stem}.{ext}', f'{stem}~00.{ext}', f'{stem}~01.{ext}']
            elif pat == 'many':
                names = [f'{stem}.{ext}'] + [f'{stem}~{k:02d}.{ext}' for k in range(101)]
            elif pat == 'empty':
                names = [f'{stem}~00.{ext}']
            elif pat == 'other':
                names = [f'{stem}x.{ext}', f'x{stem}.{ext}']
            elif pat == 'dir':
                nxt = f'{stem}.{ext}'
                k = 0
                while os.path.exists(nxt):
                    nxt = f'{stem}~{k:02d}.{ext}'
                    k += 1
                os.mkdir(nxt)
            for nm in names:
                if not os.path.exists(nm):
                    with REAL_OPEN(nm, 'wb') as f:
                        f.write(b'' if pat == 'empty' else f'planted {nm}\n'.encode())
                    self.planted.add(nm)
            ctx.log(kind, stem, ext, pat)
        elif kind == 'CLEAN':
            # the user moves the outputs away (all of them, or only the pickles): the names are free again, and what
            # is written and loaded under them afterwards is the new content
            gone = sorted(f for f, m in pre.items() if m[0] == 'file' and not EXEMPT.match(f)
                          and (a[0] or f.endswith('.pickle')))
            for f in gone:
                REAL_REMOVE(os.path.join(ctx.scratch, f))
            self.exempt_now = set(gone)
            self.pickles = [pk for pk in self.pickles if pk['file'] not in gone]
            self.planted -= set(gone)
            if gone:
                ctx.probe('outputs moved away, names free again')
            ctx.log(kind, len(gone))
        elif kind == 'ADVANCE_CLOCK':
            CLOCK.advance(a[0])
            ctx.sim_seconds += a[0]
            ctx.log(kind, a[0])
        elif kind == 'BACKUP':
            from biogeme.tools import create_backup
            files = sorted(f for f, m in pre.items() if m[0] == 'file' and not EXEMPT.match(f))
            if not files:
                ctx.log(kind, 'skip')
            else:
                target = files[a[0] % len(files)]
                content = read_bytes(target)
                if a[1]:
                    self.exempt_now = {target}
                ok, new = self._lib('I14.raise', create_backup, target, a[1])
                if ok:
                    if new in pre:
                        ctx.fail('I14.2', f'create_backup reported {new}, which existed')
                    if read_bytes(new) != content:
                        ctx.fail('I14.1', f'backup {new} does not hold the content of {target}')
                    if not a[1] and read_bytes(target) != content:
                        ctx.fail('I14.1', f'create_backup(rename=False) changed {target}')
                    for pk in self.pickles:
                        if pk['file'] == target and a[1]:
                            pk['file'] = new
                            pk['renamed'] = True
                ctx.log(kind, target, new if ok else 'io-error')
        else:
            raise RuntimeError(f'unknown op {kind}')
        post = snapshot(ctx.scratch)
        self._check_no_overwrite(pre, post, self.exempt_now, 'after the operation')
        self.pre = None
        ctx.state([kind, sorted((k, v[2] > 0) for k, v in post.items() if not EXEMPT.match(k)),
                   sorted(ctx.fs.fired.items())])

    def _note_pickle(self, fn, r, model):
        from ..env import CLOCK
        self.seq += 1
        self.pickles.append({'file': fn, 'snap': self._snap_reports(r), 'instant': CLOCK.t,
                             'model': model, 'seq': self.seq})

    def _diff(self, a, b):
        if isinstance(a, str) and isinstance(b, str):
            for i, (x, y) in enumerate(zip(a, b)):
                if x != y:
                    return f'first difference at char {i}: {a[max(0, i - 30):i + 30]!r} vs {b[max(0, i - 30):i + 30]!r}'
            return f'lengths {len(a)} vs {len(b)}'
        return f'{str(a)[:120]} vs {str(b)[:120]}'

    def finish(self):
        self.ctx.fs.uninstall()
