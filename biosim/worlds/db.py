"""W-db: operation histories on one mutable Database against a row-list reference model
(property C13)."""

from __future__ import annotations

import math
import random

from .. import ref
from ..core import fhex

name = 'db'
RAISE_ORACLE = 'I13.raise'


def make_config(rng, profile, tier):
    n = rng.choice([1, 2, 3, 5, 8, 12, 20, 30]) if rng.random() < 0.5 else rng.randrange(1, 31)
    m = rng.randrange(2, 6)
    return {
        'N': n, 'M': m, 'data_seed': rng.randrange(1 << 30),
        'index': rng.choice(['range', 'range', 'gaps', 'shuffled', 'dup', 'offset']),
        'grp_sorted': rng.random() < 0.7,
        'grp_kind': rng.choice(['int', 'int', 'neg', 'float', 'big']),
        'ngroups': rng.randrange(1, 6),
        # a column of large magnitude whose values differ very little in relative terms (time stamps in seconds)
        'stamp': rng.random() < 0.5,
    }


def make_table(cfg):
    import pandas as pd
    rng = random.Random(cfg['data_seed'])
    n, m = cfg['N'], cfg['M']
    cols = {}
    for j in range(m):
        cols[f'c{j}'] = [float(rng.randrange(-3, 4)) for _ in range(n)]
    cols['k'] = [2.0] * n
    ids_pool = {'int': [1, 2, 3, 4, 5, 6], 'neg': [-7, -2, 0, 3, 10, 11], 'float': [0.5, 1.5, 2.25, 7.75, 9.0, 10.5],
                'big': [10 ** 6, 10 ** 9, 3, 10 ** 12, 17, 5 * 10 ** 7]}[cfg['grp_kind']]
    g = [float(ids_pool[rng.randrange(cfg['ngroups'])]) for _ in range(n)]
    if cfg['grp_sorted']:
        # contiguous blocks, not necessarily in increasing id order
        order = []
        for x in g:
            if x not in order:
                order.append(x)
        rng.shuffle(order)
        g = [x for o in order for x in g if x == o]
    cols['grp'] = g
    for j in range(3):
        cols[f'q{j}'] = [float(rng.choice([0, 0, 1, 2, 5])) for _ in range(n)]
    cols['tag'] = [float(100 + i) for i in range(n)]
    if cfg.get('stamp'):
        cols['ts'] = [1.6e9 + 7.0 * i for i in range(n)]
    df = pd.DataFrame(cols)
    kind = cfg['index']
    if kind == 'gaps':
        df.index = [3 * i + (i % 2) for i in range(n)]
    elif kind == 'shuffled':
        idx = list(range(n))
        rng.shuffle(idx)
        df.index = idx
    elif kind == 'dup':
        df.index = [i // 2 for i in range(n)]
    elif kind == 'offset':
        df.index = [i + 1000 for i in range(n)]
    return df


def gen_expr(rng, depth, boolean=False):
    cols_hint = ['c0', 'c1', 'c2', 'c3', 'c4', 'k', 'grp', 'tag', 'q0']
    if depth <= 0 or rng.random() < 0.25:
        if rng.random() < 0.7:
            return ['varx', rng.randrange(len(cols_hint))]
        return ['num', float(rng.randrange(-3, 4))]
    if boolean:
        k = rng.choice(['==', '!=', '<', '<=', '>', '>=', 'and', 'or', 'in'])
    else:
        k = rng.choice(['+', '-', '*', 'min', 'max', 'neg', '==', '<', '>=', 'and', 'or', 'in', '+', '*'])
    if k == 'neg':
        return ['neg', gen_expr(rng, depth - 1)]
    if k == 'in':
        return ['in', gen_expr(rng, depth - 1), sorted({float(rng.randrange(-3, 4)) for _ in range(rng.randrange(1, 4))})]
    if k in ('and', 'or'):
        return [k, gen_expr(rng, depth - 1, True), gen_expr(rng, depth - 1, True)]
    return [k, gen_expr(rng, depth - 1), gen_expr(rng, depth - 1)]


def resolve(node, columns):
    """'varx' nodes are state-relative: index into the current column list."""
    if node[0] == 'varx':
        return ['var', columns[node[1] % len(columns)]]
    out = [node[0]]
    for c in node[1:]:
        if isinstance(c, list) and c and isinstance(c[0], str):
            out.append(resolve(c, columns))
        else:
            out.append(c)
    return out


def make_ops(rng, cfg, profile, tier):
    n = rng.randrange(3, 30)
    ops = []
    for _ in range(n):
        r = rng.random()
        if r < 0.16:
            ops.append({'op': 'REMOVE', 'a': [], 'e': gen_expr(rng, rng.randrange(1, 4), True)})
        elif r < 0.30:
            ops.append({'op': rng.choice(['ADD_COLUMN', 'ADD_COLUMN', 'DEFINE_VARIABLE']),
                        'a': [rng.randrange(8), rng.random() < 0.12], 'e': gen_expr(rng, rng.randrange(1, 4))})
        elif r < 0.38:
            ops.append({'op': 'SCALE', 'a': [rng.randrange(64), rng.choice([2.0, -1.0, 0.5, 3.0, 0.0, 10.0, 100, 1000, -250])]})
        elif r < 0.46:
            ops.append({'op': 'PANEL', 'a': [rng.random() < 0.85]})
        elif r < 0.56:
            ops.append({'op': 'SPLIT', 'a': [rng.choice([2, 2, 3, 4, 5, 7, 1, 0]), rng.random() < 0.4]})
        elif r < 0.63:
            ops.append({'op': 'SAMPLE', 'a': [rng.choice([None, None, 1, 3, 40])]})
        elif r < 0.68:
            ops.append({'op': 'SAMPLE_INDIVIDUALS', 'a': [rng.choice([None, None, 1, 4])]})
        elif r < 0.76:
            ops.append({'op': 'EXTRACT', 'a': [rng.randrange(64), rng.randrange(64), rng.random() < 0.12]})
        elif r < 0.81:
            ops.append({'op': 'FLATTEN' if rng.random() < 0.7 else 'FLATTEN_DIRECT', 'a': [rng.random() < 0.5]})
        elif r < 0.87:
            ops.append({'op': 'COUNT', 'a': [rng.randrange(64), float(rng.randrange(-3, 4))]})
        elif r < 0.91:
            ops.append({'op': 'MDCEV_COUNT', 'a': [rng.randrange(1, 8), rng.randrange(8)]})
        elif r < 0.94:
            ops.append({'op': 'ROW_SPLIT', 'a': [rng.randrange(64), rng.randrange(64)]})
        elif r < 0.96:
            ops.append({'op': 'VALUES', 'a': [], 'e': gen_expr(rng, 2)})
        elif r < 0.98:
            ops.append({'op': 'GROUPS', 'a': [rng.randrange(64)]})
        else:
            ops.append({'op': 'RNG_ADVANCE', 'a': [rng.randrange(1, 50)]})
    return ops


def died_is_outcome(spec, res):
    return False


def pinned_ops(spec):
    return set()


def simplifications(spec):
    cfg = spec['config']
    if cfg['index'] != 'range':
        yield dict(spec, config=dict(cfg, index='range'))
    for n in (1, 2, 3, 5):
        if n < cfg['N']:
            yield dict(spec, config=dict(cfg, N=n))


def nontrivial(spec, res):
    c = res.get('counters', {})
    kinds = [k for k in ('mut:REMOVE', 'mut:ADD_COLUMN', 'mut:SCALE', 'mut:PANEL', 'mut:MDCEV_COUNT') if c.get(k)]
    return sum(c.get(k, 0) for k in kinds) >= 3 and len(kinds) >= 2


class Session:
    def __init__(self, ctx):
        from .. import env
        env.import_library()
        import numpy as np
        import biogeme.database as db
        self.np = np
        self.ctx = ctx
        self.cfg = ctx.config
        df = make_table(self.cfg)
        self.rows = [{c: float(df[c].iloc[i]) for c in df.columns} for i in range(len(df))]
        self.cols = list(df.columns)
        self.db = db.Database('t', df)
        self.panel = None
        self.excluded = 0
        self.had_gaps = self.cfg['index'] != 'range'
        self.check('initial')

    # -- comparison of the real table with the model -----------------------------
    def check(self, after):
        ctx = self.ctx
        data = self.db.data
        if set(data.columns) != set(self.cols):
            ctx.fail('I13.cols', f'after {after}: columns {sorted(data.columns)} but the model has {sorted(self.cols)}')
        if len(data) != len(self.rows):
            ctx.fail('I13.rows', f'after {after}: {len(data)} rows but the model has {len(self.rows)}')
        tags = [float(t) for t in data['tag'].to_list()]
        mtags = [r['tag'] for r in self.rows]
        if sorted(tags) != sorted(mtags):
            ctx.fail('I13.rows', f'after {after}: the table holds rows {sorted(tags)[:8]}.. but the model {sorted(mtags)[:8]}..')
        if self.panel is None and tags != mtags:
            ctx.fail('I13.order', f'after {after}: row order changed: {tags[:8]} vs {mtags[:8]}')
        by_tag = {r['tag']: r for r in self.rows}
        for i in range(len(data)):
            mrow = by_tag[tags[i]]
            for c in self.cols:
                v = float(data[c].iloc[i])
                if not ref.close(v, mrow[c], 1e-12, 0.0):
                    ctx.fail('I13.values', f'after {after}: row tag={tags[i]} column {c} holds {v!r}, the model {mrow[c]!r}')
        if self.db.excludedData != self.excluded:
            ctx.fail('I13.excluded', f'after {after}: excludedData={self.db.excludedData}, the last removal deleted {self.excluded}')
        if self.db.get_number_of_observations() != len(self.rows):
            ctx.fail('I13.rows', f'after {after}: get_number_of_observations()={self.db.get_number_of_observations()}')

    def _eval(self, node, row):
        e = ref.Env(row, {})
        return ref.ev(node, e)

    def _expr(self, node):
        b = ref.Builder({}, share_elementary=False)
        e = b.build(node)
        self._nexpr = getattr(self, '_nexpr', 0) + 1
        if self._nexpr % 3 == 0:
            # the formula has been used before, on a table with the same columns at other positions (it keeps the
            # numbering of that table until it is numbered again)
            import biogeme.database as db
            cols_ = list(self.db.data.columns)[::-1]
            other = db.Database('other_layout', self.db.data[cols_].copy())
            e.prepare(other, 0)
            self.ctx.probe('formula numbered on another table layout before use')
        return e

    def _rows_of(self, frame, what, subset_ok=True):
        """Rows of a returned frame must be existing rows (by tag), values intact."""
        ctx = self.ctx
        by_tag = {r['tag']: r for r in self.rows}
        tags = [float(t) for t in frame['tag'].to_list()]
        for i, t in enumerate(tags):
            if t not in by_tag:
                ctx.fail('I13.sub', f'{what}: row tag={t} does not exist in the table')
            for c in self.cols:
                v = float(frame[c].iloc[i])
                if not ref.close(v, by_tag[t][c], 1e-12, 0.0):
                    ctx.fail('I13.sub', f'{what}: row tag={t} column {c} holds {v!r}, the table {by_tag[t][c]!r}')
        return tags

    def _refused(self, fn, what, types=Exception):
        """An operation that must be refused: raises, and the table stays intact."""
        try:
            fn()
        except types as e:
            self.ctx.count('refused')
            return type(e).__name__
        self.ctx.fail('I13.refuse', f'{what} was accepted')

    def apply(self, i, op):
        ctx = self.ctx
        kind, a = op['op'], op['a']
        ctx.count('op:' + kind)
        np = self.np
        if self.had_gaps or self.excluded:
            ctx.probe('operation on a table with index gaps')
        if kind == 'REMOVE':
            cond = resolve(op['e'], self.cols)
            keep = [r for r in self.rows if self._eval(cond, r) == 0.0]
            removed = len(self.rows) - len(keep)
            if len(keep) == 0:
                # removing everything leaves an empty table, on which later operations are undefined
                ctx.log(kind, 'skip-all')
            else:
                self.db.remove(self._expr(cond))
                self.rows = keep
                self.excluded = removed
                if removed:
                    ctx.count('mut:REMOVE')
                if len(keep) == 1:
                    ctx.probe('remove everything but one row')
                if self.panel:
                    ctx.probe('panel then remove')
                ctx.log(kind, removed)
        elif kind in ('ADD_COLUMN', 'DEFINE_VARIABLE'):
            e = resolve(op['e'], self.cols)
            newname = f'n{a[0]}'
            if a[1]:
                newname = self.cols[a[0] % len(self.cols)]
            expr = self._expr(e)
            if newname in self.cols:
                why = self._refused(lambda: self.db.add_column(expr, newname), f'add_column on existing name {newname}')
                ctx.log(kind, 'refused', why)
            else:
                if kind == 'ADD_COLUMN':
                    ret = self.db.add_column(expr, newname)
                    vals = [float(v) for v in ret.to_list()]
                else:
                    v = self.db.define_variable(newname, expr)
                    if getattr(v, 'name', None) != newname:
                        ctx.fail('I13.values', f'define_variable returned {v} for {newname}')
                    vals = None
                for r in self.rows:
                    r[newname] = self._eval(e, r)
                self.cols.append(newname)
                if vals is not None and self.panel is None:
                    want = [r[newname] for r in self.rows]
                    if len(vals) != len(want) or any(not ref.close(x, y, 1e-12, 0.0) for x, y in zip(vals, want)):
                        ctx.fail('I13.values', f'add_column returned {vals[:6]} for {want[:6]}')
                ctx.count('mut:ADD_COLUMN')
                ctx.log(kind, newname)
        elif kind == 'SCALE':
            cands = [c for c in self.cols if c not in ('tag', 'grp')]
            c = cands[a[0] % len(cands)]
            self.db.scale_column(c, a[1])
            for r in self.rows:
                r[c] = r[c] * a[1]
            ctx.count('mut:SCALE')
            ctx.log(kind, c, a[1])
        elif kind == 'PANEL':
            col = 'grp' if a[0] else 'c0'
            seq = [r[col] for r in self.rows]
            groups = 1 + sum(1 for x, y in zip(seq, seq[1:]) if x != y)
            contiguous = groups == len(set(seq))
            if self.panel is not None and col != self.panel:
                ctx.log(kind, 'skip-repanel')
            elif not contiguous:
                keep_panel = self.db.panelColumn
                why = self._refused(lambda: self.db.panel(col), f'panel({col}) on non-contiguous individuals')
                # a refused declaration must not leave the table half-declared
                self.db.panelColumn = keep_panel
                ctx.log(kind, 'refused', why)
            else:
                self.db.panel(col)
                self.panel = col
                ids = sorted(set(seq))
                self.rows = [r for x in ids for r in self.rows if r[col] == x]
                self._check_map(col)
                ctx.count('mut:PANEL')
                ctx.log(kind, col, len(ids))
        elif kind == 'SPLIT':
            k, use_groups = a
            groups = 'grp' if use_groups else None
            if self.panel is not None:
                groups = self.panel if use_groups else None
            if k < 2:
                why = self._refused(lambda: self.db.split(k, groups), f'split({k})')
                ctx.log(kind, 'refused', why)
            else:
                folds = self.db.split(k, groups)
                self._check_folds(folds, k, groups if groups else (self.panel if self.panel else None))
                if groups and self.excluded:
                    ctx.probe('split with groups after removal')
                ctx.log(kind, k, groups, [len(f.validation) for f in folds])
        elif kind == 'SAMPLE':
            size = a[0]
            s = self.db.sample_with_replacement(size)
            want = len(self.rows) if size is None else size
            if len(s) != want:
                ctx.fail('I13.sample', f'sample_with_replacement({size}) returned {len(s)} rows')
            tags = self._rows_of(s, 'sample_with_replacement')
            if tags and tags[-1:] == [self.rows[-1]['tag']] or self.rows[-1]['tag'] in tags:
                ctx.probe('last row drawn in a resample')
            ctx.log(kind, size, [int(t) for t in tags[:10]])
        elif kind == 'SAMPLE_INDIVIDUALS':
            size = a[0]
            if self.panel is None:
                why = self._refused(lambda: self.db.sample_individual_map_with_replacement(size),
                                    'sample_individual_map_with_replacement on non-panel data')
                ctx.log(kind, 'refused', why)
            else:
                self.db.build_panel_map()
                self._check_map(self.panel)
                s = self.db.sample_individual_map_with_replacement(size)
                ids = sorted(set(r[self.panel] for r in self.rows))
                want = len(ids) if size is None else size
                if len(s) != want:
                    ctx.fail('I13.sample', f'sample_individual_map_with_replacement({size}) returned {len(s)} individuals')
                for ident, (lo, hi) in zip(s.index.to_list(), s.to_numpy().tolist()):
                    if float(ident) not in ids:
                        ctx.fail('I13.sample', f'resampled individual {ident} does not exist')
                    block = [r for r in self.rows if r[self.panel] == float(ident)]
                    got = [float(t) for t in self.db.data['tag'].iloc[int(lo):int(hi) + 1].to_list()]
                    if sorted(got) != sorted(r['tag'] for r in block):
                        ctx.fail('I13.sample', f'resampled individual {ident} maps to rows {got}, its rows are '
                                               f'{[r["tag"] for r in block]}')
                ctx.log(kind, size, [fhex(x) for x in s.index.to_list()[:10]])
        elif kind == 'EXTRACT':
            n = len(self.rows)
            lo = a[0] % n
            hi = lo + 1 + a[1] % (n - lo)
            step = 1 + (a[0] + a[1]) % 3
            use_range = (a[0] % 2 == 0)
            rng_ = range(lo, hi, step) if use_range else list(range(lo, hi, step))
            pos_ = list(range(lo, hi, step))
            shape_ = (a[0] // 2 + a[1]) % 4
            if not use_range and shape_ == 1:
                pos_ = pos_[::-1]                      # positions listed backwards
                rng_ = list(pos_)
            elif not use_range and shape_ == 2:
                pos_ = pos_ + [pos_[0]] + pos_[-1:]    # positions listed more than once (a resampling)
                rng_ = list(pos_)
            if shape_ in (1, 2) and not use_range:
                ctx.probe('rows extracted by positions that are not increasing / not distinct')
            if a[2]:
                rng_ = list(rng_)
                bad = rng_ + [n + a[1] % 3]
                why = self._refused(lambda: self.db.extract_rows(bad), f'extract_rows with position {bad[-1]} of {n}')
                ctx.log(kind, 'refused', why)
            else:
                sub = self.db.extract_rows(rng_)
                tags = self._rows_of(sub.data, 'extract_rows')
                all_model = [r['tag'] for r in self.rows]
                all_cur = [float(t) for t in self.db.data['tag'].to_list()]
                want = [all_model[i_] for i_ in pos_] if self.panel is None else None
                cur = [all_cur[i_] for i_ in pos_]
                if tags != cur or (want is not None and tags != want):
                    ctx.fail('I13.extract', f'extract_rows({lo}..{hi - 1}) returned rows {tags}, positions hold {cur}')
                # the extracted table is a table of its own: transforming it leaves the original intact (checked below
                # by the cell-by-cell comparison), and vice versa
                cands = [c for c in self.cols if c not in ('tag', 'grp')]
                csel = cands[(a[0] + a[1]) % len(cands)]
                sub.scale_column(csel, 3.0)
                by_tag = {r['tag']: r for r in self.rows}
                for i_, t_ in enumerate(tags):
                    if not ref.close(float(sub.data[csel].iloc[i_]), 3.0 * by_tag[t_][csel], 1e-12, 0.0):
                        ctx.fail('I13.values', f'scaling column {csel} of the extracted table gives {float(sub.data[csel].iloc[i_])!r} '
                                               f'for row tag={t_}')
                ctx.log(kind, lo, hi)
        elif kind == 'FLATTEN':
            if self.panel is None:
                why = self._refused(lambda: self.db.generate_flat_panel_dataframe(), 'flatten on non-panel data')
                ctx.log(kind, 'refused', why)
            elif len(self.rows) % 4 == 1:
                # a call that fails (a misspelled name among the columns declared identical) and is caught by the caller
                # leaves the table as it was
                why = self._refused(lambda: self.db.generate_flat_panel_dataframe(identical_columns=['no_such_column']),
                                    'flatten with an unknown column declared identical')
                ctx.log(kind, 'refused', why)
            else:
                ident = None
                if a[0]:
                    ident = [c for c in self.cols if c != self.panel and all(
                        len({r[c] for r in self.rows if r[self.panel] == x}) == 1
                        for x in set(r[self.panel] for r in self.rows))]
                flat = self.db.generate_flat_panel_dataframe(identical_columns=ident)
                self._check_flat(flat, ident)
                ctx.log(kind, bool(a[0]), list(flat.shape))
        elif kind == 'FLATTEN_DIRECT':
            # the function behind generate_flat_panel_dataframe called on the table as it is: the identifiers need not
            # be sorted, nor declared as a panel
            import biogeme.tools.database as tdb
            gcol = 'grp'
            ident = None
            if a[0]:
                ident = [c for c in self.cols if c != gcol and all(
                    len({r[c] for r in self.rows if r[gcol] == x}) == 1 for x in set(r[gcol] for r in self.rows))]
            flat = tdb.flatten_database(self.db.data.copy(), gcol, identical_columns=ident)
            self._check_flat(flat, ident, col=gcol)
            if [r[gcol] for r in self.rows] != sorted(r[gcol] for r in self.rows):
                ctx.probe('flatten on identifiers that are not in increasing order')
            ctx.log(kind, bool(a[0]), list(flat.shape))
        elif kind == 'COUNT':
            c = self.cols[a[0] % len(self.cols)]
            got = int(self.db.count(c, a[1]))
            want = sum(1 for r in self.rows if r[c] == a[1])
            if got != want:
                ctx.fail('I13.count', f'count({c}, {a[1]}) = {got}, the table implies {want}')
            ctx.log(kind, c, a[1], got)
        elif kind == 'MDCEV_COUNT':
            cols = [f'q{j}' for j in range(3) if a[0] & (1 << j)] or ['q0']
            newname = f'm{a[1]}'
            if newname in self.cols:
                ctx.log(kind, 'skip')
            else:
                self.db.mdcev_count(cols, newname)
                for r in self.rows:
                    r[newname] = float(sum(1 for c in cols if r[c] != 0))
                self.cols.append(newname)
                ctx.count('mut:MDCEV_COUNT')
                ctx.log(kind, cols, newname)
        elif kind == 'ROW_SPLIT':
            n = len(self.rows)
            lo = a[0] % n
            hi = min(n, lo + 1 + a[1] % 4)
            parts = self.db.mdcev_row_split(range(lo, hi))
            cur = [float(t) for t in self.db.data['tag'].to_list()][lo:hi]
            got = []
            for p in parts:
                t = self._rows_of(p.data, 'mdcev_row_split')
                if len(t) != 1:
                    ctx.fail('I13.extract', f'mdcev_row_split part holds {len(t)} rows')
                got.append(t[0])
            if got != cur:
                ctx.fail('I13.extract', f'mdcev_row_split({lo}..{hi - 1}) returned rows {got}, positions hold {cur}')
            ctx.log(kind, lo, hi)
        elif kind == 'VALUES':
            e = resolve(op['e'], self.cols)
            if self.panel is not None:
                ctx.log(kind, 'skip-panel')
            else:
                s = self.db.values_from_database(self._expr(e))
                got = [float(v) for v in list(s)]
                want = [self._eval(e, r) for r in self.rows]
                if len(got) != len(want) or any(not ref.close(x, y, 1e-12, 0.0) for x, y in zip(got, want)):
                    ctx.fail('I13.values', f'values_from_database returned {got[:6]} for {want[:6]}')
                ctx.log(kind, len(got))
        elif kind == 'GROUPS':
            import biogeme.tools
            c = self.cols[a[0] % len(self.cols)]
            cur_tags = [float(t) for t in self.db.data['tag'].to_list()]
            by_tag = {r['tag']: r for r in self.rows}
            seq = [by_tag[t][c] for t in cur_tags]
            want = 1 + sum(1 for x, y in zip(seq, seq[1:]) if x != y)
            got = biogeme.tools.count_number_of_groups(self.db.data, c)
            if got != want:
                ctx.fail('I13.count', f'count_number_of_groups({c}) = {got}, the column has {want} runs of equal values')
            ctx.log(kind, c, got)
        elif kind == 'RNG_ADVANCE':
            np.random.random(a[0])
            import random as _r
            for _ in range(a[0]):
                _r.random()
            ctx.count('fault:rng-advance')
            ctx.log(kind, a[0])
        else:
            raise RuntimeError(f'unknown op {kind}')
        self.check(kind)
        ctx.state([kind, len(self.rows), sorted(self.cols), self.panel, self.excluded])

    # -- structure checks -------------------------------------------------------------
    def _check_map(self, col):
        ctx = self.ctx
        m = self.db.individualMap
        ids = sorted(set(r[col] for r in self.rows))
        got_ids = [float(x) for x in m.index.to_list()]
        if sorted(got_ids) != ids or len(got_ids) != len(ids):
            ctx.fail('I13.map', f'panel map lists individuals {got_ids[:8]}, the table has {ids[:8]}')
        covered = []
        data = self.db.data
        for ident, (lo, hi) in zip(got_ids, m.to_numpy().tolist()):
            lo, hi = int(lo), int(hi)
            block = data.iloc[lo:hi + 1]
            if any(float(v) != ident for v in block[col].to_list()):
                ctx.fail('I13.map', f'block [{lo},{hi}] of individual {ident} contains other individuals')
            n_own = sum(1 for r in self.rows if r[col] == ident)
            if hi - lo + 1 != n_own:
                ctx.fail('I13.map', f'block [{lo},{hi}] of individual {ident} has {hi - lo + 1} rows, it owns {n_own}')
            covered += list(range(lo, hi + 1))
        if sorted(covered) != list(range(len(self.rows))):
            ctx.fail('I13.map', 'panel map blocks do not partition the rows')
        if self.db.get_sample_size() != len(ids):
            ctx.fail('I13.map', f'get_sample_size()={self.db.get_sample_size()} for {len(ids)} individuals')

    def _check_folds(self, folds, k, groups):
        ctx = self.ctx
        all_tags = sorted(r['tag'] for r in self.rows)
        if len(folds) != k:
            ctx.fail('I13.folds', f'split({k}) returned {len(folds)} folds')
        seen = []
        for f in folds:
            v = self._rows_of(f.validation, 'validation part')
            e = self._rows_of(f.estimation, 'estimation part')
            if sorted(v + e) != all_tags:
                ctx.fail('I13.folds', f'estimation part is not the complement of the validation part '
                                      f'({len(v)}+{len(e)} rows of {len(all_tags)})')
            seen += v
            if groups:
                gv = {r[groups] for r in self.rows if r['tag'] in set(v)}
                ge = {r[groups] for r in self.rows if r['tag'] in set(e)}
                if gv & ge:
                    ctx.fail('I13.folds', f'group(s) {sorted(gv & ge)[:4]} of column {groups} split across '
                                          f'estimation and validation')
        if sorted(seen) != all_tags:
            ctx.fail('I13.folds', f'validation parts do not partition the rows: {len(seen)} rows listed, '
                                  f'{len(set(seen))} distinct, table has {len(all_tags)}')

    def _check_flat(self, flat, ident, col=None):
        ctx = self.ctx
        col = col or self.panel
        ids = sorted(set(r[col] for r in self.rows))
        if sorted(float(x) for x in flat.index.to_list()) != ids:
            ctx.fail('I13.flat', f'flat table rows {flat.index.to_list()[:8]} but individuals {ids[:8]}')
        data_tags = [float(t) for t in self.db.data['tag'].to_list()]
        by_tag = {r['tag']: r for r in self.rows}
        for ident_v in ids:
            own = [by_tag[t] for t in data_tags if by_tag[t][col] == ident_v]
            row = flat.loc[ident_v]
            for j, r in enumerate(own, start=1):
                for c in self.cols:
                    key = f'{j}_{c}'
                    if key in flat.columns:
                        v = float(row[key])
                        if not ref.close(v, r[c], 1e-12, 0.0):
                            ctx.fail('I13.flat', f'individual {ident_v}: {key} = {v!r}, observation {j} has {r[c]!r}')
                    elif c in flat.columns:
                        v = float(row[c])
                        if not ref.close(v, r[c], 1e-12, 0.0):
                            ctx.fail('I13.flat', f'individual {ident_v}: common column {c} = {v!r}, observation {j} has {r[c]!r}')
                    elif c != col:
                        ctx.fail('I13.flat', f'individual {ident_v}: column {c} of observation {j} is nowhere in the flat table')
            extra = f'{len(own) + 1}_tag'
            if extra in flat.columns and not math.isnan(float(row[extra])):
                ctx.fail('I13.flat', f'individual {ident_v} has {len(own)} observations but the flat table lists more')
