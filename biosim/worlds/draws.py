"""W-eval, draws profile: Monte-Carlo operators behind a recording randomness seam (C10, partial:
mean over the draws, routing of each named draw variable to its own series, series used unmodified,
reproducibility with a non-zero seed)."""

from __future__ import annotations

import math
import random

from .. import ref
from ..core import fhex

name = 'draws'
RAISE_ORACLE = 'I10.raise'
NATIVE = ['UNIFORM', 'UNIFORM_ANTI', 'UNIFORM_HALTON2', 'UNIFORM_HALTON3', 'UNIFORM_HALTON5', 'UNIFORM_MLHS',
          'UNIFORM_MLHS_ANTI', 'UNIFORMSYM', 'UNIFORMSYM_ANTI', 'UNIFORMSYM_HALTON2', 'UNIFORMSYM_HALTON3',
          'UNIFORMSYM_HALTON5', 'UNIFORMSYM_MLHS', 'UNIFORMSYM_MLHS_ANTI', 'NORMAL', 'NORMAL_ANTI', 'NORMAL_HALTON2',
          'NORMAL_HALTON3', 'NORMAL_HALTON5', 'NORMAL_MLHS', 'NORMAL_MLHS_ANTI']
# user-defined types: deterministic, random, integer-valued series (regime draws), single-precision series, and two
# types whose names differ from a native type only by the case of the letters (legal: native names are upper case)
USER = ['UDET', 'URND', 'UINT', 'UF32', 'Normal', 'uniform_halton2']
DRAW_NAMES = ['xi', 'zeta', 'alpha_draw', 'Z']
BETAS = {'b0': 0.3, 'b1': -0.6, 's': 0.8}


def make_config(rng, profile, tier):
    nv = rng.randrange(1, 4)
    names = rng.sample(DRAW_NAMES, nv)
    types = [rng.choice(NATIVE + USER + USER) for _ in range(nv)]
    return {'N': rng.randrange(1, 7), 'R': rng.choice([2, 4, 6, 10]), 'vars': [[n, t] for n, t in zip(names, types)],
            'template': rng.randrange(3), 'data_seed': rng.randrange(1 << 30), 'threads': rng.choice([1, 2, 3]),
            'panel': False}


def make_ops(rng, cfg, profile, tier):
    ops = []
    for _ in range(rng.randrange(4, 14)):
        r = rng.random()
        if r < 0.3:
            ops.append({'op': 'EVAL_C', 'a': [rng.choice([2, 4, 6, 10]), rng.randrange(4), rng.random() < 0.3]})
        elif r < 0.5:
            ops.append({'op': 'MAKE_BIOGEME', 'a': [rng.choice([0, 0, 1, 42, 90267]), rng.choice([2, 4, 6, 10])]})
        elif r < 0.65:
            ops.append({'op': 'LL', 'a': [rng.randrange(8), rng.randrange(4)]})
        elif r < 0.75:
            ops.append({'op': 'SIMULATE', 'a': [rng.randrange(8), rng.randrange(4)]})
        elif r < 0.83:
            ops.append({'op': 'RNG_ADVANCE', 'a': [rng.randrange(1, 100)]})
        elif r < 0.9:
            ops.append({'op': 'UNRELATED_MC', 'a': [rng.choice([2, 4, 8]), rng.randrange(8)]})
        elif r < 0.97:
            ops.append({'op': 'REBUILD', 'a': [rng.choice([1, 7, 90267]), rng.choice([2, 4, 6]), rng.randrange(0, 50)]})
        else:
            ops.append({'op': 'RESERVED', 'a': [rng.randrange(len(NATIVE))]})
    if rng.random() < 0.3:
        ops.insert(rng.randrange(len(ops) + 1), {'op': 'REREGISTER', 'a': [rng.randrange(1, 5)]})
    if rng.random() < 0.25:
        ops.insert(rng.randrange(len(ops) + 1), {'op': 'SHARED_MODELS', 'a': [rng.choice([2, 4, 6]), rng.randrange(4)]})
    if rng.random() < 0.25:
        ops.insert(rng.randrange(len(ops) + 1), {'op': 'OBJECTIVE', 'a': [rng.choice([2, 4, 6, 10]), rng.randrange(4)]})
    if rng.random() < 0.3:
        ops.insert(rng.randrange(len(ops) + 1), {'op': 'EVAL_KEPT', 'a': [rng.choice([6, 10]), rng.choice([2, 4]), rng.randrange(4)]})
    for _ in range(rng.randrange(0, 3)):
        ops.insert(rng.randrange(len(ops) + 1),
                   {'op': rng.choice(['INTEGRATE', 'DERIVE']), 'a': [rng.randrange(4), rng.randrange(3), rng.random() < 0.5]})
    return ops


def died_is_outcome(spec, res):
    return False


def pinned_ops(spec):
    return set()


def simplifications(spec):
    cfg = spec['config']
    if len(cfg['vars']) > 1:
        yield dict(spec, config=dict(cfg, vars=cfg['vars'][:1]))
    if cfg['N'] > 1:
        yield dict(spec, config=dict(cfg, N=1))


def nontrivial(spec, res):
    c = res.get('counters', {})
    return len(spec['config']['vars']) >= 2 and c.get('mc_values_checked', 0) >= 2


class RvEnv(ref.Env):
    def __init__(self, row, betas, omega):
        super().__init__(row, betas)
        self.omega = omega


class RvBuilder(ref.Builder):
    def build(self, n):
        if n[0] == 'rv':
            import biogeme.expressions as ex
            if ('rv', n[1]) not in self.refs:
                self.refs[('rv', n[1])] = ex.RandomVariable(n[1])
            return self.refs[('rv', n[1])]
        return super().build(n)


class Session:
    def __init__(self, ctx):
        from .. import env
        env.import_library()
        import numpy as np
        import pandas as pd
        import biogeme.database as db
        import biogeme.native_draws as nd
        self.np = np
        self.ctx = ctx
        self.cfg = ctx.config
        rng = random.Random(self.cfg['data_seed'])
        n = self.cfg['N']
        self.table = pd.DataFrame({'x0': [float(rng.randrange(-2, 3)) for _ in range(n)],
                                   'x1': [round(rng.uniform(-1, 1), 2) for _ in range(n)]})
        self.rows = [{c: float(self.table[c].iloc[i]) for c in self.table.columns} for i in range(n)]
        self.calls = []   # (type, shape, array copy)
        self.versions_called = []
        self.udet_version = 0
        sess = self
        # recording wrappers, in place, on the native generators (a dict read at call time)
        self._orig = {}
        for t in NATIVE:
            tup = nd.native_random_number_generators[t]
            self._orig[t] = tup

            def make(t=t, gen=tup.generator):
                def wrapped(sample_size, number_of_draws):
                    out = gen(sample_size, number_of_draws)
                    sess.calls.append((t, (sample_size, number_of_draws), np.array(out, dtype=float, copy=True)))
                    return out
                return wrapped
            nd.native_random_number_generators[t] = nd.RandomNumberGeneratorTuple(generator=make(), description=tup.description)

        def udet(sample_size, number_of_draws):
            out = np.array([[((i * 5 + r * 3) % 7) / 7.0 - 0.4 for r in range(number_of_draws)] for i in range(sample_size)])
            sess.calls.append(('UDET', (sample_size, number_of_draws), out.copy()))
            sess.versions_called.append(('UDET', 0))
            return out

        def urnd(sample_size, number_of_draws):
            out = np.random.standard_exponential((sample_size, number_of_draws)) - 1.0
            sess.calls.append(('URND', (sample_size, number_of_draws), out.copy()))
            return out

        def uint(sample_size, number_of_draws):
            out = np.array([[(i * 2 + r) % 3 - 1 for r in range(number_of_draws)] for i in range(sample_size)], dtype=np.int64)
            sess.calls.append(('UINT', (sample_size, number_of_draws), np.array(out, dtype=float)))
            return out

        def uf32(sample_size, number_of_draws):
            out = np.array([[((i * 3 + r * 5) % 11) / 11.0 - 0.45 for r in range(number_of_draws)]
                            for i in range(sample_size)], dtype=np.float32)
            sess.calls.append(('UF32', (sample_size, number_of_draws), np.array(out, dtype=float)))
            return out

        def mixed_case(tname, shift):
            def gen(sample_size, number_of_draws):
                out = np.array([[((i * 7 + r * 2) % 5) / 5.0 - shift for r in range(number_of_draws)]
                                for i in range(sample_size)])
                sess.calls.append((tname, (sample_size, number_of_draws), out.copy()))
                return out
            return gen

        self.user = {'UDET': (udet, 'deterministic'), 'URND': (urnd, 'random user generator'),
                     'UINT': (uint, 'integer-valued series'), 'UF32': (uf32, 'single-precision series'),
                     'Normal': (mixed_case('Normal', 0.3), 'user type, not the native NORMAL'),
                     'uniform_halton2': (mixed_case('uniform_halton2', 0.1), 'user type, not the native UNIFORM_HALTON2')}
        self.db = db.Database('mc', self.table.copy())
        self.db.set_random_number_generators(dict(self.user))
        self.objects = []

    def finish(self):
        import biogeme.native_draws as nd
        for t, tup in self._orig.items():
            nd.native_random_number_generators[t] = tup

    # -- formulas ---------------------------------------------------------------------------
    def integrand(self):
        v = self.cfg['vars']
        d = [['draws', nm, tp] for nm, tp in v]
        d1 = d[0]
        d2 = d[1] if len(d) > 1 else ['num', 0.25]
        d3 = d[2] if len(d) > 2 else ['num', -0.5]
        t = self.cfg['template']
        if t == 0:
            u = ['+', ['+', ['beta', 'b0'], ['*', ['beta', 's'], d1]], ['*', ['+', ['beta', 'b1'], d2], ['var', 'x0']]]
            return ['+', ['/', ['exp', u], ['+', ['num', 1.0], ['exp', u]]], ['*', ['num', 0.01], ['*', d3, d3]]]
        if t == 1:
            q = ['-', d1, ['*', d2, ['var', 'x1']]]
            return ['+', ['exp', ['neg', ['*', ['num', 0.1], ['*', q, q]]]], ['*', ['num', 0.05], ['+', ['num', 2.0], ['sin', d3]]]]
        return ['+', ['num', 0.6], ['*', ['num', 0.25], ['sin', ['+', ['+', ['*', d1, ['var', 'x0']], d2],
                                                                   ['*', d3, ['beta', 'b1']]]]]]

    def build(self, ast):
        b = ref.Builder({k: (v, None, None, 0) for k, v in BETAS.items()}, share_elementary=True)
        return b.build(ast)

    def betas_at(self, k):
        return {'b0': BETAS['b0'] + 0.2 * k, 'b1': BETAS['b1'] - 0.15 * k, 's': BETAS['s'] + 0.1 * k}

    def mc_reference(self, gen, betas, R, log=False):
        """gen: dict draw name -> array (N, R). Mean over r of the integrand with each draw variable
        replaced by its own series."""
        ast = self.integrand()
        out = []
        for i, row in enumerate(self.rows):
            tot = 0.0
            for r in range(R):
                draws = {nm: float(gen[nm][i, r]) for nm, _ in self.cfg['vars']}
                tot += ref.ev(ast, ref.Env(row, betas, draws=draws))
            v = tot / R
            out.append(math.log(v) if log else v)
        return out

    def generations(self, calls, R):
        """Groups the recorded generator calls into complete generations (one call per draw variable, in
        some order). Returns a list of dicts name -> array; draw variables of the same type are tried in
        both assignments."""
        types = [tp for _, tp in self.cfg['vars']]
        nv = len(types)
        gens = []
        i = 0
        calls = [c for c in calls if c[1][1] == R]
        while i + nv <= len(calls):
            block = calls[i:i + nv]
            if sorted(c[0] for c in block) == sorted(types):
                import itertools
                for perm in itertools.permutations(range(nv)):
                    if all(block[perm[j]][0] == types[j] for j in range(nv)):
                        gens.append({self.cfg['vars'][j][0]: block[perm[j]][2] for j in range(nv)})
                i += nv
            else:
                i += 1
        return gens

    def check_shapes(self, calls, R, what):
        n = len(self.rows)
        for t, shape, arr in calls:
            if shape[1] != R or shape[0] < n:
                self.ctx.fail('I10.shape', f'{what}: generator {t} was asked for shape {shape}; {n} observations, R={R}')
            if arr.shape != shape:
                self.ctx.fail('I10.shape', f'{what}: generator {t} returned shape {arr.shape} for {shape}')

    def match_some(self, what, got, gens, betas, R, log=False):
        """Existential oracle: the values equal the reference for at least ONE complete generation; returns
        all the generations that match (several can, by symmetry of antithetic draws)."""
        ctx = self.ctx
        best = None
        matching = []
        for g in gens:
            want = self.mc_reference(g, betas, R, log=log)
            if len(want) == len(got) and all(ref.close(float(a), b, 1e-10, 1e-13) for a, b in zip(got, want)):
                matching.append(g)
            best = want
        if matching:
            ctx.count('mc_values_checked')
            return matching
        ctx.fail('I10.mean', f'{what}: {[float(x) for x in got][:4]} is not the mean over the {R} draws of the integrand with '
                             f'each draw variable replaced by its own recorded series, for any of the {len(gens)} '
                             f'generation(s) recorded (e.g. {best[:4] if best else None})')

    # -- operations ----------------------------------------------------------------------------
    def apply(self, i, op):
        ctx = self.ctx
        kind, a = op['op'], op['a']
        ctx.count('op:' + kind)
        np = self.np
        import biogeme.expressions as ex
        if kind == 'EVAL_C':
            R, k, log = a
            betas = self.betas_at(k)
            inner = self.build(self.integrand())
            e = ex.MonteCarlo(inner)
            if log:
                e = ex.log(e)
            self.calls.clear()
            got = e.get_value_c(database=self.db, betas=betas, number_of_draws=R, aggregation=False, prepare_ids=True)
            calls = list(self.calls)
            self.check_shapes(calls, R, 'get_value_c')
            gens = self.generations(calls, R)
            if len(calls) != len(self.cfg['vars']):
                ctx.fail('I10.gen', f'one evaluation made {len(calls)} generator calls for {len(self.cfg["vars"])} draw variables')
            # reproducibility across processes: the series are generated in an order that is a function of the names
            # (sorted, reverse sorted or as declared), never of a hash-dependent iteration
            tmap = dict(self.cfg['vars'])
            seq = [c[0] for c in calls]
            orders = [sorted(tmap), sorted(tmap, reverse=True), [n_ for n_, _ in self.cfg['vars']]]
            if len(set(tmap.values())) > 1 and not any(seq == [tmap[n_] for n_ in o_] for o_ in orders):
                ctx.fail('I10.seed', f'the series were generated in the order {seq}, which is none of the orders defined by the '
                                     f'names {sorted(tmap.items())}: seeded results would differ between processes')
            self.match_some('Monte-Carlo value through get_value_c', list(got), gens, betas, R, log=log)
            # the generator output is used unmodified: every slice of the table handed to the engine is, bit for
            # bit, the series one generator call of that variable's type returned (each call used once)
            td = np.asarray(self.db.theDraws)
            names_sorted = sorted(nm for nm, _ in self.cfg['vars'])
            types = dict(self.cfg['vars'])
            if td.shape != (len(self.rows), R, len(names_sorted)):
                ctx.fail('I10.table', f'draw table has shape {td.shape}, expected {(len(self.rows), R, len(names_sorted))}')
            used = set()
            for j in range(td.shape[2]):
                hit = [ci for ci, c in enumerate(calls) if ci not in used and np.array_equal(td[:, :, j], c[2])]
                if not hit:
                    ctx.fail('I10.table', f'slice {j} of the draw table is not the unmodified output of any generator call')
                used.add(hit[0])
            if len(self.cfg['vars']) >= 2:
                ctx.probe('several draw variables in one formula')
            ctx.log(kind, R, k, [fhex(v) for v in list(got)[:3]])
        elif kind == 'MAKE_BIOGEME':
            self.make(a[0], a[1])
        elif kind in ('LL', 'SIMULATE'):
            if not self.objects:
                ctx.log(kind, 'skip')
            else:
                rec = self.objects[a[0] % len(self.objects)]
                self.use(kind, rec, a[1])
        elif kind == 'RNG_ADVANCE':
            np.random.random(a[0])
            ctx.count('fault:rng-advance')
            ctx.log(kind, a[0])
        elif kind == 'UNRELATED_MC':
            # another Monte-Carlo evaluation on the SAME database with another R regenerates the
            # database's draw table; live objects must not be affected
            R2 = a[0]
            before = None
            rec = None
            if self.objects:
                rec = self.objects[a[1] % len(self.objects)]
                before = self.ll(rec, 0)
            uname, utype = 'unrelated', 'UNIFORM'
            if a[1] % 3 == 0:
                # ... under the NAME of one of the session's draw variables, declared here with another type: the series
                # is the one of the type declared in THIS formula
                uname = self.cfg['vars'][0][0]
                utype = 'UNIFORM' if self.cfg['vars'][0][1] != 'UNIFORM' else 'NORMAL'
                ctx.probe('a draw variable name declared again with another type on the same database')
            e = ex.MonteCarlo(ex.bioDraws(uname, utype) * ex.Variable('x1') + 1)
            self.calls.clear()
            got = e.get_value_c(database=self.db, number_of_draws=R2, aggregation=False, prepare_ids=True)
            calls = list(self.calls)
            series = [c for c in calls if c[0] == utype]
            if not series and calls and uname != 'unrelated':
                ctx.fail('I10.gen', f'draw variable {uname} declared with type {utype}: the generators called were '
                                    f'{sorted(set(c[0] for c in calls))}')
            if len(series) == 1:
                want = [float(np.mean(series[0][2][i, :] * r['x1'] + 1)) for i, r in enumerate(self.rows)]
                for g_, w in zip(got, want):
                    if not ref.close(float(g_), w, 1e-10, 1e-13):
                        ctx.fail('I10.mean', f'unrelated Monte-Carlo value {float(g_)!r}, mean over its draws {w!r}')
            if rec is not None:
                after = self.ll(rec, 0)
                if after != before:
                    ctx.fail('I10.isolation', f'an unrelated Monte-Carlo evaluation on the same database changed the '
                                              f'likelihood of a live object: {before!r} -> {after!r}')
                ctx.probe('unrelated Monte-Carlo evaluation between construction and use')
            ctx.log(kind, R2)
        elif kind == 'OBJECTIVE':
            # the Monte-Carlo formula wrapped as an objective function (create_objective_function): the number of draws asked
            # for is the number of draws used, and the value is the sum over the observations of the means
            R, k = a
            betas = self.betas_at(k)
            ast = self.integrand()
            e = ex.MonteCarlo(self.build(ast))
            if k % 2:
                # the same expression was evaluated on its own before, with another number of draws
                e.get_value_c(database=self.db, betas=betas, number_of_draws=R + 2, aggregation=False, prepare_ids=True)
                ctx.probe('objective function built on an expression evaluated before with another number of draws')
            self.calls.clear()
            fobj = e.create_objective_function(database=self.db, number_of_draws=R, gradient=True, hessian=False)
            names_ = sorted(ref.collect(ast, [])['beta'])
            fobj.set_variables(np.array([betas[n_] for n_ in names_], dtype=float))
            got = float(fobj.f())
            calls = list(self.calls)
            self.check_shapes(calls, R, 'create_objective_function')
            gens = self.generations(calls, R)
            if not gens:
                ctx.fail('I10.gen', f'create_objective_function recorded no complete generation of {R} draws ({len(calls)} calls)')
            if not any(ref.close(got, sum(self.mc_reference(g_, betas, R)), 1e-10, 1e-12) for g_ in gens):
                ctx.fail('I10.mean', f'objective function built on the Monte-Carlo formula with {R} draws: {got!r} is not the sum '
                                     f'over the observations of the means over the recorded series '
                                     f'(e.g. {sum(self.mc_reference(gens[-1], betas, R))!r})')
            ctx.probe('Monte-Carlo formula wrapped as an objective function')
            ctx.log(kind, R, fhex(got))
        elif kind == 'SHARED_MODELS':
            # two models on one database that SHARE a draw variable object; in the two models the shared variable sits at
            # another place among the draw variables (alphabetical numbering), and each model must go on feeding every
            # variable with its own series whatever was built or simulated in between
            import biogeme.biogeme as bio
            from biogeme.parameters import Parameters
            R, order = a
            det = {}
            for tp_ in ('UDET', 'UF32', 'UINT'):
                self.calls.clear()
                self.user[tp_][0](len(self.rows), R)
                det[tp_] = self.calls[-1][2]
            self.calls.clear()
            sh = ex.bioDraws('sh_b', 'UDET')
            c_ = ex.bioDraws('sh_c', 'UF32')
            a_ = ex.bioDraws('sh_a', 'UINT')
            x0 = ex.Variable('x0')
            m1 = ex.MonteCarlo(0.5 * sh + 0.25 * c_ * x0 + 1)
            m2 = ex.MonteCarlo(2.0 * a_ - sh * x0 + 3)
            want1 = [float(np.mean(0.5 * det['UDET'][i, :] + 0.25 * det['UF32'][i, :] * r['x0'] + 1)) for i, r in enumerate(self.rows)]
            want2 = [float(np.mean(2.0 * det['UINT'][i, :] - det['UDET'][i, :] * r['x0'] + 3)) for i, r in enumerate(self.rows)]

            def obj(f):
                p = Parameters()
                p.set_value('number_of_draws', R)
                p.set_value('number_of_threads', self.cfg['threads'])
                p.set_value('save_iterations', False)
                return bio.BIOGEME(self.db, {'p': f}, parameters=p)

            def sim(b, want, what):
                got = [float(v) for v in b.simulate({})['p'].to_list()]
                for i_, (g_, w_) in enumerate(zip(got, want)):
                    if not ref.close(g_, w_, 1e-10, 1e-13):
                        ctx.fail('I10.route', f'{what}: observation {i_}: {g_!r}, the mean over the draws with every variable '
                                              f'replaced by its own series is {w_!r}')
            b1 = obj(m1)
            if order % 2:
                sim(b1, want1, 'first model, simulated before the second one is built')
            b2 = obj(m2)
            if order >= 2:
                sim(b2, want2, 'second model (shares a draw variable with the first one)')
            sim(b1, want1, 'first model, simulated after a second model sharing one of its draw variables was built')
            sim(b2, want2, 'second model (shares a draw variable with the first one)')
            sim(b1, want1, 'first model again')
            ctx.probe('two models sharing a draw variable object')
            ctx.log(kind, R, order)
        elif kind == 'REBUILD':
            seed, R, adv = a
            kw = bool(adv % 2)      # the seed handed over as a constructor keyword / in the Parameters object
            so = bool((adv // 2) % 2)     # objects with a likelihood / for simulation only
            r1 = self.make(seed, R, keep=False, seed_as_kwarg=kw, sim_only=so)
            np.random.random(adv)
            r2 = self.make(seed, R, keep=False, seed_as_kwarg=kw, sim_only=so)
            if so:
                bt_ = self.betas_at(1)
                l1, l2 = [[float(v_) for v_ in r_['b'].simulate({n_: bt_[n_] for n_ in r_['b'].free_beta_names})['p'].to_list()]
                          for r_ in (r1, r2)]
                ctx.probe('reconstruction of a simulation-only object with the same non-zero seed')
            else:
                l1, l2 = self.ll(r1, 1), self.ll(r2, 1)
            if l1 != l2:
                ctx.fail('I10.seed', f'two constructions with seed {seed} give {"simulated values" if so else "likelihoods"} '
                                     f'{l1!r} and {l2!r}')
            ctx.probe('reconstruction with the same non-zero seed')
            ctx.log(kind, seed, R, fhex(l1 if not so else l1[0]))
        elif kind == 'REREGISTER':
            # the user registers ANOTHER generator under a name already used: from now on that one produces the series
            ver = a[0]
            self.udet_version = ver
            sess = self

            def udet_v(sample_size, number_of_draws, ver=ver):
                out = np.array([[((i * 3 + r * 5 + ver) % 9) / 9.0 - 0.45 for r in range(number_of_draws)]
                                for i in range(sample_size)])
                sess.calls.append(('UDET', (sample_size, number_of_draws), out.copy()))
                sess.versions_called.append(('UDET', ver))
                return out
            self.user = dict(self.user, UDET=(udet_v, f'deterministic v{ver}'))
            self.db.set_random_number_generators(dict(self.user))
            if any(t == 'UDET' for _, t in self.cfg['vars']):
                inner = self.build(self.integrand())
                e = ex.MonteCarlo(inner)
                self.calls.clear()
                self.versions_called.clear()
                R = self.cfg['R']
                betas = self.betas_at(0)
                got = e.get_value_c(database=self.db, betas=betas, number_of_draws=R, aggregation=False, prepare_ids=True)
                if any(v != ('UDET', ver) for v in self.versions_called if v[0] == 'UDET') or not self.versions_called:
                    ctx.fail('I10.registered', f'after registering another generator for type UDET the series were produced by '
                                               f'{sorted(set(self.versions_called))}, not by the registered one (version {ver})')
                self.match_some('Monte-Carlo value after re-registering a generator', list(got),
                                self.generations(list(self.calls), R), betas, R)
                ctx.probe('generator re-registered under the same name')
            ctx.log(kind, ver)
        elif kind == 'EVAL_KEPT':
            # the formula is prepared once with R draws; evaluations that keep that numbering (prepare_ids=False) use
            # the R draws that were generated, whatever number_of_draws they are called with
            R, R2, k = a
            betas = self.betas_at(k)
            e = ex.MonteCarlo(self.build(self.integrand()))
            self.calls.clear()
            e.prepare(self.db, R)
            calls = list(self.calls)
            gens = self.generations(calls, R)
            got = e.get_value_c(database=self.db, betas=betas, number_of_draws=R2, aggregation=False, prepare_ids=False)
            self.match_some(f'Monte-Carlo value of a formula prepared with {R} draws and evaluated with number_of_draws={R2}',
                            list(got), gens, betas, R)
            e.set_id_manager(None)
            ctx.log(kind, R, R2)
        elif kind == 'INTEGRATE':
            # numerical integration over the real line of a smooth, normally decaying integrand (sampled:
            # two integrand families; reference = adaptive quadrature on [-14, 14])
            from scipy.integrate import quad
            k, fam, inside_mc = a
            betas = self.betas_at(k)
            om = ['rv', 'omega']
            phi = ['/', ['exp', ['neg', ['/', ['*', om, om], ['num', 2.0]]]], ['num', math.sqrt(2 * math.pi)]]
            if fam == 0:
                u = ['+', ['+', ['beta', 'b0'], ['*', ['beta', 's'], om]], ['*', ['beta', 'b1'], ['var', 'x0']]]
                g = ['*', ['/', ['exp', u], ['+', ['num', 1.0], ['exp', u]]], phi]
            elif fam == 1:
                q = ['-', om, ['*', ['beta', 'b1'], ['var', 'x1']]]
                g = ['*', ['exp', ['neg', ['*', q, q]]], ['+', ['num', 2.0], ['cos', ['*', ['beta', 'b0'], om]]]]
            else:
                g = ['*', ['*', ['+', ['num', 1.0], ['*', ['*', ['beta', 's'], om], ['*', ['beta', 's'], om]]], phi],
                     ['+', ['num', 1.0], ['*', ['num', 0.1], ['var', 'x0']]]]
            b = RvBuilder({k_: (v, None, None, 0) for k_, v in BETAS.items()}, share_elementary=True)
            e = ex.Integrate(b.build(g), 'omega')
            g2 = None
            if inside_mc:
                # a second integral, over another variable (whose name sorts before or after the first one), next to the
                # first one in the same formula: each integral is over its own variable
                al = ['rv', 'alpha' if k % 2 else 'zeta']
                q2 = ['-', al, ['*', ['num', 0.3], ['var', 'x0']]]
                g2 = ['*', ['exp', ['neg', ['*', q2, q2]]], ['+', ['num', 1.5], ['sin', ['*', ['beta', 'b1'], al]]]]
                e2 = ex.Integrate(b.build(g2), al[1])
                e = (e + 0.5 * e2) if fam % 2 else (0.5 * e2 + e)
                ctx.probe('two numerical integrals over different variables in one formula')
            got = e.get_value_c(database=self.db, betas=betas, aggregation=False, prepare_ids=True)
            for i_, row in enumerate(self.rows):
                f = lambda o, row=row: ref.ev(g, RvEnv(row, betas, o))
                want = quad(f, -14.0, 14.0, epsabs=1e-13, epsrel=1e-12, limit=200)[0]
                if g2 is not None:
                    f2 = lambda o, row=row: ref.ev(g2, RvEnv(row, betas, o))
                    want += 0.5 * quad(f2, -14.0, 14.0, epsabs=1e-13, epsrel=1e-12, limit=200)[0]
                if not ref.close(float(got[i_]), want, 1e-7, 1e-10):
                    ctx.fail('I10.integral', f'Integrate (family {fam}) on row {i_}: {float(got[i_])!r}, the integral over the '
                                             f'real line is {want!r}')
            ctx.count('integrals_checked')
            ctx.log(kind, k, fam)
        elif kind == 'DERIVE':
            k, fam, wrt_var = a
            betas = self.betas_at(k)
            h = [['+', ['exp', ['*', ['beta', 'b0'], ['var', 'x0']]], ['*', ['beta', 'b1'], ['*', ['beta', 'b0'], ['beta', 'b0']]]],
                 ['*', ['sin', ['*', ['beta', 'b0'], ['var', 'x1']]], ['+', ['var', 'x0'], ['beta', 's']]],
                 ['/', ['beta', 'b0'], ['+', ['num', 1.0], ['*', ['var', 'x0'], ['var', 'x0']]]]][fam]
            name_ = 'x0' if wrt_var else 'b0'
            b = RvBuilder({k_: (v, None, None, 0) for k_, v in BETAS.items()}, share_elementary=True)
            e = ex.Derive(b.build(h), name_)
            got = e.get_value_c(database=self.db, betas=betas, aggregation=False, prepare_ids=True)
            for i_, row in enumerate(self.rows):
                step = 1e-5

                def val(delta, row=row):
                    r2, b2 = dict(row), dict(betas)
                    if wrt_var:
                        r2['x0'] += delta
                    else:
                        b2['b0'] += delta
                    return ref.ev(h, ref.Env(r2, b2))
                want = (val(step) - val(-step)) / (2 * step)
                if not ref.close(float(got[i_]), want, 1e-6, 1e-8):
                    ctx.fail('I10.derive', f'Derive(., {name_}) (family {fam}) on row {i_}: {float(got[i_])!r}, the partial '
                                           f'derivative is {want!r}')
            # the SAME Derive object is then numbered in another context: a BIOGEME object with one more parameter
            import biogeme.biogeme as bio
            from biogeme.parameters import Parameters
            p_ = Parameters()
            p_.set_value('save_iterations', False)
            p_.set_value('number_of_threads', self.cfg['threads'])
            extra = ex.Beta('a_first', 0.2, None, None, 0) * ex.Variable('x1') + ex.Beta('zz_last', -0.1, None, None, 0)
            bb = bio.BIOGEME(self.db, {'d': e, 'extra': extra}, parameters=p_)
            vals = dict(betas, a_first=0.2, zz_last=-0.1)
            sim = bb.simulate({n_: vals[n_] for n_ in bb.free_beta_names})
            for i_, row in enumerate(self.rows):
                r2, b2 = dict(row), dict(betas)
                step = 1e-5

                def val2(delta, row=row):
                    r3, b3 = dict(row), dict(betas)
                    if wrt_var:
                        r3['x0'] += delta
                    else:
                        b3['b0'] += delta
                    return ref.ev(h, ref.Env(r3, b3))
                want = (val2(step) - val2(-step)) / (2 * step)
                if not ref.close(float(sim['d'].iloc[i_]), want, 1e-6, 1e-8):
                    ctx.fail('I10.derive', f'Derive(., {name_}) simulated inside a BIOGEME object with more parameters, row {i_}: '
                                           f'{float(sim["d"].iloc[i_])!r}, the partial derivative is {want!r}')
            ctx.count('derivatives_checked')
            ctx.log(kind, k, fam, name_)
        elif kind == 'RESERVED':
            t = NATIVE[a[0]]
            try:
                self.db.set_random_number_generators({t: (lambda n, r: np.zeros((n, r)), 'clash')})
            except ValueError:
                ctx.count('refused')
            else:
                ctx.fail('I10.reserved', f'user generator registered under the reserved name {t}')
            self.db.set_random_number_generators(dict(self.user))
            ctx.log(kind, t)
        else:
            raise RuntimeError(kind)
        ctx.state([kind, len(self.objects)])

    def make(self, seed, R, keep=True, seed_as_kwarg=False, sim_only=False):
        import biogeme.biogeme as bio
        import biogeme.expressions as ex
        from biogeme.parameters import Parameters
        ctx = self.ctx
        p = Parameters()
        # seed and number of draws: in the Parameters object, as constructor keywords, or (seed_as_kwarg == 2) under the
        # obsolete spellings of these keywords, which the constructor still accepts
        old_style = seed_as_kwarg and (seed + R) % 2 == 1
        if not seed_as_kwarg:
            p.set_value('seed', seed)
        if not old_style:
            p.set_value('number_of_draws', R)
        p.set_value('number_of_threads', self.cfg['threads'])
        p.set_value('save_iterations', False)
        inner = self.build(self.integrand())
        mc = ex.MonteCarlo(inner)
        self.calls.clear()
        forms = {'log_like': ex.log(mc), 'p': mc}
        if sim_only:
            # an object meant for simulation only: no likelihood among its formulas
            forms = {'p': mc}
        if (seed + R) % 4 < 2:
            # a formula without draws listed after the Monte-Carlo ones (the object still needs its draws)
            forms['det'] = ex.Variable('x0') * 2 + 1
            ctx.probe('formula without draws listed last')
        if (seed + R) % 3 == 0:
            # a numerical integral in the same object: integration variables are numbered between parameters and draws
            om_ = ex.RandomVariable('omega_obj')
            forms = dict({'integ': ex.Integrate(ex.exp(-om_ * om_ / 2.0) * (1 + 0.1 * ex.Variable('x0')), 'omega_obj')}, **forms)
            ctx.probe('numerical integral and Monte-Carlo formulas in one object')
        if old_style:
            b = bio.BIOGEME(self.db, forms, parameters=p, seed_param=seed, numberOfDraws=R)
            ctx.probe('seed and number of draws given under the obsolete keyword spellings')
        elif seed_as_kwarg:
            b = bio.BIOGEME(self.db, forms, parameters=p, seed=seed)
        else:
            b = bio.BIOGEME(self.db, forms, parameters=p)
        calls = list(self.calls)
        self.check_shapes(calls, R, 'BIOGEME construction')
        gens = self.generations(calls, R)
        if not gens:
            ctx.fail('I10.gen', f'BIOGEME construction recorded no complete generation of draws ({len(calls)} calls)')
        rec = {'b': b, 'R': R, 'gens': gens, 'seed': seed}
        if keep:
            self.objects.append(rec)
            ctx.log('MAKE_BIOGEME', seed, R, len(gens))
        return rec

    def ll(self, rec, k):
        b = rec['b']
        betas = self.betas_at(k)
        return float(b.calculate_likelihood([betas[n] for n in b.free_beta_names], scaled=False))

    def use(self, kind, rec, k):
        ctx = self.ctx
        b = rec['b']
        betas = self.betas_at(k)
        self.calls.clear()
        if kind == 'LL':
            v = self.ll(rec, k)
            ok = [g for g in rec['gens'] if ref.close(v, sum(self.mc_reference(g, betas, rec['R'], log=True)), 1e-10, 1e-12)]
            if not ok:
                ctx.fail('I10.mean', f'log likelihood {v!r} is not the sum of the logs of the Monte-Carlo means for any of the '
                                     f'{len(rec["gens"])} generation(s) still consistent with this object')
            rec['gens'] = ok    # the object keeps using one generation: later values must agree with the same one
            ctx.count('mc_values_checked')
            ctx.log(kind, fhex(v))
        else:
            sim = b.simulate({n: betas[n] for n in b.free_beta_names})
            gs = self.match_some('simulate (probability)', sim['p'].to_list(), rec['gens'], betas, rec['R'])
            gs = self.match_some('simulate (log)', sim['log_like'].to_list(), gs, betas, rec['R'], log=True)
            rec['gens'] = gs
            ctx.log(kind)
        if self.calls:
            ctx.fail('I10.gen', f'{kind} on a live object generated new draws ({len(self.calls)} generator calls)')
