"""W-iter: the saved-iteration file under evaluation histories, crashes, torn writes and
I/O errors (property C15)."""

from __future__ import annotations

import math
import os
import random

from ..core import Violation, fhex, stream
from ..fs import FsSeam, read_bytes
from .. import specs

name = 'iter'
RAISE_ORACLE = 'I15.raise'
MODEL_NAMES = ['m', 'm2', 'mod el', 'mode.choice_v1', 'mode.choice_v2']
REAL_ALGOS = ['simple_bounds', 'TR-newton', 'LS-BFGS', 'scipy', 'TR-BFGS', 'LS-newton',
              'simple_bounds_newton', 'simple_bounds_BFGS']


# --------------------------------------------------------------------------- generation
def make_config(rng: random.Random, profile: str, tier: str) -> dict:
    wide = rng.random() < (0.012 if tier == 'quick' else 0.04)
    cfg = specs.gen_model_config(rng, k_max=6, wide=wide, fancy_names=True, allow_cliff=True)
    cfg['chunk'] = rng.choice([None, None, 16, 32, 64, 100, 256, 1024])
    cfg['threads'] = rng.choice([1, 1, 2, 3, 0])
    # buggify: knobs the saved-iteration logic is supposed not to depend on
    cfg['max_report'] = rng.choice([15, 15, 0, 1, 2])
    # simulated environment: a process whose preferred encoding is ASCII (text files opened without an explicit encoding
    # cannot hold the non-ASCII parameter names)
    cfg['locale'] = rng.choice([None, None, 'ascii'])
    if cfg['K'] <= 10 and not cfg.get('zero_peak') and rng.random() < 0.15:
        # every starting value written as a Python integer (Beta('b', 0, None, None, 0))
        cfg['init'] = [float(rng.choice([0, 0, 1, -1])) for _ in range(cfg['K'])]
        cfg['int_init'] = True
        if cfg.get('kink') and cfg['init'][cfg['kink']['param']] == cfg['kink']['at']:
            cfg['kink']['at'] += 0.125
    if cfg['K'] <= 10 and not cfg.get('cliff') and not cfg.get('kink') and rng.random() < 0.2:
        # declared bounds that the evaluated points do not respect (direct calls and the scripted optimiser go where they
        # please; so do the algorithms that ignore bounds): the file holds the evaluated point, not a feasible one
        cfg['bounds'] = [rng.choice([None, [-0.05, 0.05], [None, 0.02], [-0.02, None]]) for _ in range(cfg['K'])]
        cfg['tight_bounds'] = True
    if cfg['family'] == 'quad' and cfg['K'] <= 10 and rng.random() < 0.25:
        # one observation, no constant: the perfect fit has a log likelihood of exactly 0.0 and is one of the points the
        # scripted optimiser may visit ('perfect')
        cfg.update(N=1, offset=0.0, zero_peak=True, fixed=[], cliff=None, kink=None)
        cfg['init'] = [0.37 + 0.01 * i for i in range(cfg['K'])]
    return cfg


def _points(rng, n):
    pts = []
    for _ in range(n):
        kind = rng.choice(['better', 'better', 'worse', 'worse', 'worse2', 'repeat', 'random',
                           'mirror', 'nonfinite', 'last', 'kink', 'perfect'])
        pts.append([kind, round(rng.random(), 3), rng.randrange(1 << 16),
                    rng.choice(['f_g', 'f_g', 'f_g_h', 'f'])])
    return pts


def make_ops(rng: random.Random, cfg: dict, profile: str, tier: str) -> list[dict]:
    n = rng.randrange(3, 26) if cfg['K'] <= 100 else rng.randrange(2, 6)
    ops = []
    for _ in range(n):
        r = rng.random()
        if r < 0.45:
            p = _points(rng, 1)[0]
            ops.append({'op': 'EVAL_D', 'a': [p[0], p[1], p[2], rng.random() < 0.3,
                                              rng.random() < 0.3, rng.random() < 0.2,
                                              rng.random() < 0.15]})
        elif r < 0.53:
            p = _points(rng, 1)[0]
            ops.append({'op': 'EVAL', 'a': [p[0], p[1], p[2], rng.random() < 0.3]})
        elif r < 0.55:
            p = _points(rng, 1)[0]
            ops.append({'op': 'FD_HESSIAN', 'a': [p[0], p[1], p[2]]})
        elif r < 0.80:
            scripted = (rng.random() < 0.6 or cfg['K'] > 100 or bool(cfg.get('cliff')) or bool(cfg.get('kink'))
                        or bool(cfg.get('tight_bounds')))
            algo = 'scripted' if scripted else rng.choice(REAL_ALGOS)
            boot = rng.choice([0, 0, 0, 2, 3]) if 2 <= cfg['K'] <= 100 else 0
            ops.append({'op': 'ESTIMATE', 'a': [algo, boot, rng.choice(['best', 'last', 'first'])],
                        'pts': _points(rng, rng.randrange(0, 7))})
        elif r < 0.86:
            ops.append({'op': 'SAVE', 'a': [rng.random() < 0.6]})
        elif r < 0.91:
            ops.append({'op': 'RENAME', 'a': [rng.randrange(len(MODEL_NAMES))]})
        elif r < 0.97:
            ops.append({'op': 'NEW_OBJECT', 'a': []})
        else:
            ops.append({'op': 'QUICK', 'a': [], 'pts': _points(rng, rng.randrange(0, 4))})
    return ops


def fault_plans(rng: random.Random, spec: dict, base: dict, tier: str) -> list[list[dict]]:
    """Fault placements for the faulty batch, from the event profile of the fault-free run."""
    per_op = {int(k): v for k, v in base['fs']['per_op'].items() if v > 0}
    log = [r for r in base['fs']['log'] if r[0] == 0]  # lifetime 0
    writes = [(r[1], r[2]) for r in log if r[3] == 'write' and r[5] > 1]
    allev = [(r[1], r[2]) for r in log]
    plans = []
    if not allev:
        # no FS event at all: only crash between operations
        if spec['ops']:
            plans.append([{'kind': 'crash@op', 'op': rng.randrange(len(spec['ops']))}])
        return plans
    total = len(allev)
    if spec['config']['K'] > 100:
        # wide model (slow engine): a few crash points inside the multi-write saves only
        multi = [e for e in allev] 
        return [[{'kind': 'crash', 'op': o, 'event': e}] for (o, e) in
                [multi[rng.randrange(total)] for _ in range(3)]] + \
               ([[{'kind': 'torn', 'op': writes[-1][0], 'event': writes[-1][1], 'q': 0.5}]] if writes else [])
    exhaustive = tier == 'thorough' and total <= 120
    if exhaustive:
        chosen = list(allev)
    else:
        chosen = [allev[rng.randrange(total)] for _ in range(4 if tier == 'quick' else 12)]
        # bias: events inside the last save of an operation and the very first event
        chosen.append(allev[0])
    for (op, ev) in chosen:
        plans.append([{'kind': 'crash', 'op': op, 'event': ev}])
    for (op, ev) in ([writes[rng.randrange(len(writes))] for _ in range(2 if tier == 'quick' else 6)]
                     if writes else []):
        plans.append([{'kind': 'torn', 'op': op, 'event': ev, 'q': rng.choice([0.0, 0.34, 0.67, 0.999])}])
    if writes:
        op, ev = writes[rng.randrange(len(writes))]
        plans.append([{'kind': 'short', 'op': op, 'event': ev, 'q': rng.choice([0.1, 0.5, 0.9])}])
    op, ev = allev[rng.randrange(total)]
    plans.append([{'kind': rng.choice(['enospc', 'eio']), 'op': op, 'event': ev}])
    # two crashes in one session: a crash, then another one during the rest
    if total >= 2:
        a = allev[rng.randrange(total)]
        later = [e for e in allev if e[0] > a[0]]
        plan = [{'kind': 'crash', 'op': a[0], 'event': a[1]}]
        if later:
            b = later[rng.randrange(len(later))]
            plan.append({'kind': 'crash', 'op': b[0], 'event': b[1]})
        plans.append(plan)
    plans.append([{'kind': 'crash@op', 'op': rng.randrange(len(spec['ops']))}])
    return plans


def died_is_outcome(spec, res) -> bool:
    return False


def pinned_ops(spec) -> set:
    return set()


def simplifications(spec):
    """Candidates: smaller chunk knob off, fewer scripted points, smaller configs are not
    attempted (the table is part of the config)."""
    for i, op in enumerate(spec['ops']):
        if op.get('pts'):
            for k in range(len(op['pts'])):
                c = dict(spec)
                c['ops'] = [dict(o) for o in spec['ops']]
                c['ops'][i]['pts'] = op['pts'][:k] + op['pts'][k + 1:]
                yield c
    if spec['config'].get('chunk'):
        c = dict(spec)
        c['config'] = dict(spec['config'], chunk=None)
        yield c


# --------------------------------------------------------------------------- file format
class Malformed(Exception):
    pass


def parse_iter(data: bytes) -> dict[str, str]:
    """The documented format: each line `name = value`. Returns name -> float.hex()."""
    try:
        text = data.decode('utf-8')
    except UnicodeDecodeError as e:
        raise Malformed(f'not utf-8: {e}')
    if text == '':
        raise Malformed('empty file')
    if not text.endswith('\n'):
        raise Malformed(f'last line incomplete: {text[-40:]!r}')
    out = {}
    for line in text.split('\n')[:-1]:
        # the value never holds the separator, a name may (names are free strings): the LAST ' = ' separates them, and the
        # name is what stands before it, blanks included
        nm, sep, val = line.rpartition(' = ')
        if not sep:
            raise Malformed(f'line without the separator " = ": {line[:60]!r}')
        try:
            v = float(val)
        except ValueError:
            raise Malformed(f'value does not parse: {line[:60]!r}')
        if nm in out:
            raise Malformed(f'name twice: {nm!r}')
        out[nm] = float(v).hex()
    return out


# --------------------------------------------------------------------------- session
class Session:
    def __init__(self, ctx):
        from .. import env
        env.import_library()
        import numpy as np
        import biogeme.optimization as opt
        self.np = np
        self.ctx = ctx
        self.cfg = ctx.config
        self.table = specs.make_table(self.cfg)
        self.names = sorted(self.cfg['names'])  # library order = sorted by name
        self.defaults = {n: float(v) for n, v in zip(self.cfg['names'], self.cfg['init'])}
        self.model_name = (ctx.carry or {}).get('model_name', MODEL_NAMES[0])
        self.script = None  # points for the scripted optimiser of the running estimate
        self.evals_seen = 0
        opt.algorithms['scripted'] = self._scripted
        # oracle object: never saves; gives f_ref and the heuristic target x*
        self.oracle = self._make_biogeme(save=False, cliff=True)
        self.xstar = self._target()
        # FS seam last: construction of the oracle is not part of the simulated history
        fs = FsSeam(ctx.scratch, chunk=self.cfg.get('chunk'))
        fs.set_faults(ctx.faults)
        fs.on_event = self.on_fs_event
        fs.on_crash = ctx.crash
        fs.locale_encoding = self.cfg.get('locale')
        ctx.fs = fs
        fs.begin_op(-1 - ctx.lifetime)
        fs.install()
        # model of the directory: file name -> settled content (name->hex) or None
        self.settled: dict[str, dict | None] = {}
        self.inflight = None  # (filename, point dict) of the evaluation in flight
        self.uncertain = False  # an injected I/O error hit a save of the current object
        self.in_estimate = None
        self.obj = None
        self.last_x = None
        for mn in MODEL_NAMES:
            self._settle(self._fname(mn), strict=True)
        if ctx.lifetime > 0:
            self.restart_check()
        else:
            self.new_object()

    # -- construction -------------------------------------------------------
    def _fname(self, mn=None):
        return f'__{mn or self.model_name}.iter'

    def _make_biogeme(self, save: bool, cliff: bool):
        import biogeme.biogeme as bio
        import biogeme.database as db
        from biogeme.parameters import Parameters
        ll, _, betas = specs.build_formulas(self.cfg, cliff=cliff)
        d = db.Database('d', self.table.copy())
        p = Parameters()
        p.set_value('save_iterations', save)
        p.set_value('generate_html', False)
        p.set_value('generate_pickle', False)
        p.set_value('number_of_threads', self.cfg['threads'] or 0)
        p.set_value('max_iterations', 60)
        p.set_value('max_number_parameters_to_report', self.cfg.get('max_report', 15))
        b = bio.BIOGEME(d, ll, parameters=p)
        b.modelName = self.model_name
        b._betas = betas
        return b

    def _target(self):
        """Heuristic target for 'better' points: optimum of the cliff-free twin."""
        try:
            t = self._make_biogeme(save=False, cliff=False)
            t.biogeme_parameters.set_value('optimization_algorithm', 'simple_bounds')
            r = t.quick_estimate()
            vals = r.get_beta_values()
            return {n: float(vals[n]) for n in self.names}
        except Exception:
            return {n: 0.3 for n in self.names}

    def new_object(self):
        self.obj = self._make_biogeme(save=True, cliff=True)
        self.obj.modelName = self.model_name
        self.epoch = []  # list of (point-hex tuple, f_ref) eligible evaluations of the epoch
        self.uncertain = False
        self.boot = False
        self._wrap(self.obj)

    def _wrap(self, b):
        sess = self
        orig_d = b.calculate_likelihood_and_derivatives
        orig_l = b.calculate_likelihood
        orig_s = b.database.sample_with_replacement

        def like_d(x, scaled, hessian=False, bhhh=False, batch=None):
            token = sess.before_deriv(b, x)
            try:
                out = orig_d(x, scaled=scaled, hessian=hessian, bhhh=bhhh, batch=batch)
            except OSError as e:
                sess.after_deriv(token, None, e)
                raise
            sess.after_deriv(token, out, None)
            return out

        def like(x, scaled, batch=None):
            sess.on_like(b, x)
            return orig_l(x, scaled=scaled, batch=batch)

        def sample(*a, **k):
            sess.boot = True
            sess.ctx.probe('bootstrap sample drawn while saving'
                           if sess._saving(b) else 'bootstrap sample drawn')
            return orig_s(*a, **k)

        b.calculate_likelihood_and_derivatives = like_d
        b.calculate_likelihood = like
        b.database.sample_with_replacement = sample

    # -- model helpers ---------------------------------------------------------
    def _saving(self, b):
        # inside an operation that is not an estimation, what counts is what the USER set before calling it (a library
        # function that quietly switches saving off around its own evaluations does not change what the file must hold)
        forced = getattr(self, 'saving_as_set_by_user', None)
        if forced is not None:
            return forced
        return bool(b.biogeme_parameters.get_value('save_iterations'))

    def _point(self, x) -> dict:
        return {n: float(v).hex() for n, v in zip(self.names, list(x))}

    def _fref(self, x) -> float:
        try:
            return float(self.oracle.calculate_likelihood(self.np.asarray(x, dtype=float),
                                                          scaled=False))
        except Exception:
            return float('nan')

    def _disk(self, fname):
        """Content on disk now: None (absent) | dict | Malformed instance."""
        data = read_bytes(os.path.join(self.ctx.scratch, fname))
        if data is None:
            return None
        try:
            d = parse_iter(data)
        except Malformed as m:
            return m
        return d

    def _complete(self, d) -> str | None:
        if set(d) != set(self.names):
            missing = sorted(set(self.names) - set(d))
            extra = sorted(set(d) - set(self.names))
            return f'lines do not match the free parameters: missing {missing[:4]}, extra {extra[:4]}'
        return None

    def _settle(self, fname, strict=False):
        d = self._disk(fname)
        if isinstance(d, Malformed):
            self.ctx.fail('I15.1', f'{fname} is not a complete file at a quiescent point: {d}')
        if d is not None:
            why = self._complete(d)
            if why:
                self.ctx.fail('I15.1', f'{fname}: {why}')
        self.settled[fname] = d

    # -- FS-level invariant: evaluated after every FS event ----------------------
    def on_fs_event(self, seam, kind, path, nbytes, info):
        base = os.path.basename(str(path))
        self.ctx.count('fs_checks')
        for fname in list(self.settled):
            d = self._disk(fname)
            if d is None:
                continue  # no file: admissible
            allowed = [self.settled.get(fname)]
            if self.inflight is not None and self.inflight[0] == fname:
                allowed.append(self.inflight[1])
            if isinstance(d, Malformed):
                self._probe_partial(kind, info)
                self.ctx.fail('I15.1', f'a process stopped after FS event #{seam.op_event - 1} '
                    f'({kind} {base}, {nbytes} B) would leave {fname} incomplete: {d}')
            why = self._complete(d)
            if why:
                self.ctx.fail('I15.1', f'a process stopped after FS event #{seam.op_event - 1} '
                    f'({kind} {base}) would leave {fname} incomplete: {why}')
            if not any(a is not None and a == d for a in allowed):
                self.ctx.fail('I15.1', f'after FS event #{seam.op_event - 1} ({kind} {base}) {fname} holds '
                    f'values that are neither the previous content nor the point being saved '
                    f'(bit-for-bit): {self._show(d)}')
        if kind == 'write' and base.endswith('.iter') or base.endswith('.tmp'):
            self.ctx.probe('fs event inside a save')

    def _probe_partial(self, kind, info):
        self.ctx.probe('partial file observable at an FS event')

    def _show(self, d):
        items = list(d.items())[:4]
        return ', '.join(f'{k}={float.fromhex(v)!r}' for k, v in items)

    # -- evaluation-level model -------------------------------------------------------
    def before_deriv(self, b, x):
        fname = f'__{b.modelName}.iter'
        pt = self._point(x)
        self.inflight = (fname, pt)
        if fname not in self.settled:
            self._settle(fname)
        return (b, fname, pt, list(map(float, x)), self.settled.get(fname))

    def after_deriv(self, token, out, exc):
        b, fname, pt, xl, before = token
        self.inflight = None
        ctx = self.ctx
        self.evals_seen += 1
        now = self._disk(fname)
        if isinstance(now, Malformed):
            self.ctx.fail('I15.1', f'{fname} incomplete after an evaluation returned: {now}')
        if exc is not None:
            # injected I/O error inside the save: on-disk content must still be old or new
            self.uncertain = True
            ctx.probe('I/O error inside a save')
            if now is not None and now != before and now != pt:
                self.ctx.fail('I15.1', f'{fname} after a failed save is neither old nor new content')
            self.settled[fname] = now
            return
        g = self.np.asarray(out.gradient, dtype=float)
        finite = bool(self.np.isfinite(self.np.linalg.norm(g)))
        saving = self._saving(b)
        on_est = not self.boot
        f_ref = self._fref(xl)
        eligible = saving and finite and on_est and math.isfinite(f_ref)
        ctx.count('evaluations_with_derivatives')
        if not finite:
            ctx.probe('non-finite gradient' + (' while saving' if saving else ''))
        if self.boot and saving:
            ctx.probe('bootstrap evaluation while saving')
        changed = (now != before)
        if not eligible:
            if changed:
                why = ('saving is switched off' if not saving else
                       'its gradient is not finite' if not finite else
                       'it was evaluated on a bootstrap sample' if not on_est else
                       'its value is not finite')
                oracle = 'I15.3b' if (saving and finite and not on_est) else 'I15.3'
                ctx.violate(oracle, f'{fname} was rewritten by an evaluation that must not '
                                    f'touch it ({why}); now {self._show(now) if now else None}')
            self.settled[fname] = now
            return
        best = max((f for _, f in self.epoch), default=-math.inf)
        tol = 1e-9 * max(1.0, abs(f_ref))
        if self.epoch:
            if f_ref < best - tol:
                ctx.probe('worse point evaluated after a better one')
            elif f_ref <= best + tol:
                ctx.probe('tie with the best so far')
        if not self.uncertain:
            if f_ref > best + tol or not self.epoch:
                if now != pt:
                    ctx.violate('I15.2', f'new best point (LL {f_ref!r} > {best!r}) was evaluated '
                                         f'with finite derivatives but {fname} holds '
                                         f'{self._show(now) if now else None}')
                else:
                    ctx.probe('file rewritten with a new best')
            elif f_ref < best - tol:
                if changed:
                    ctx.violate('I15.2', f'{fname} was overwritten by a worse point (LL {f_ref!r}) '
                                         f'although the best so far has LL {best!r}')
            else:
                if now != before and now != pt:
                    ctx.violate('I15.2', f'{fname} holds neither the tied point nor the previous one')
        # bit-for-bit: whatever was saved equals the evaluated coordinates
        if changed and now is not None and now != pt:
            ctx.violate('I15.1b', f'{fname} changed during an evaluation at {self._show(pt)} '
                                  f'but holds {self._show(now)}')
        self.epoch.append((tuple(pt.values()), f_ref))
        self.settled[fname] = now
        self.last_x = xl

    def on_like(self, b, x):
        ie = self.in_estimate
        if ie is not None and ie.get('start') is None:
            ie['start'] = self._point(x)
            # estimate() resets its best-so-far marker after this call: new epoch
            self.epoch = []
            self.uncertain = False
            self.boot = False

    # -- scripted optimiser -------------------------------------------------------
    def _resolve(self, kind, u, salt, base=None):
        """Turns a state-relative point description into a vector (sorted-name order)."""
        np = self.np
        rng = random.Random(salt)
        names = self.names
        if self.epoch:
            bi = max(range(len(self.epoch)), key=lambda i: self.epoch[i][1])
            best = [float.fromhex(h) for h in self.epoch[bi][0]]
        elif base is not None:
            best = list(map(float, base))
        else:
            vals = self.obj.get_beta_values()
            best = [float(vals[n]) for n in names]
        star = [self.xstar[n] for n in names]
        if kind == 'better':
            x = [b + (0.1 + 0.9 * u) * (s - b) for b, s in zip(best, star)]
        elif kind == 'worse':
            x = [b - (0.05 + u) * (s - b) - 0.01 * (rng.random() - 0.5) for b, s in zip(best, star)]
        elif kind == 'worse2':
            # worse than the best, but usually better than the first point of the epoch
            x = [b + 1e-3 * (1 + 9 * u) * (rng.random() - 0.5) for b in best]
        elif kind == 'repeat':
            x = list(best)
        elif kind == 'last' and self.last_x is not None and len(self.last_x) == len(names):
            x = list(self.last_x)
        elif kind == 'mirror':
            x = [2 * s - b for b, s in zip(best, star)]
        elif kind == 'perfect' and self.cfg.get('zero_peak'):
            # the point that reproduces the single observation exactly: log likelihood 0.0
            row0 = {c: float(self.table[c].iloc[0]) for c in self.table.columns}
            by_name = {nm: self.cfg['coef'][i] * row0[specs.colname(self.cfg, self.cfg['assign'][i][1])]
                       for i, nm in enumerate(self.cfg['names'])}
            x = [by_name[n] for n in names]
            self.ctx.probe('evaluation at the perfect fit (log likelihood exactly 0.0)')
        elif kind in ('nonfinite', 'kink') and self.cfg.get('kink'):
            # finite value, non-finite gradient: exactly at the kink
            x = [b + (0.3 * u) * (s - b) for b, s in zip(best, star)] if kind == 'kink' else list(best)
            idx = names.index(self.cfg['names'][self.cfg['kink']['param']])
            x[idx] = float(self.cfg['kink']['at'])
            self.ctx.probe('evaluation exactly at a kink (finite value, non-finite gradient)')
        elif kind == 'nonfinite' and self.cfg.get('cliff'):
            x = list(best)
            idx = names.index(self.cfg['names'][self.cfg['cliff']['param']])
            x[idx] = 2.0 + 3 * u
        else:
            x = [rng.uniform(-1.5, 1.5) for _ in names]
        return np.array(x, dtype=float)

    def _scripted(self, fct, init_betas, bounds, variable_names, parameters):
        from biogeme_optimization.diagnostics import OptimizationResults
        np = self.np
        script = self.script or {'pts': [], 'ret': 'best'}
        x0 = np.array(init_betas, dtype=float)
        visited = []
        fct.set_variables(x0)
        d = fct.f_g()
        visited.append((x0, d.function))
        for kind, u, salt, how in script['pts']:
            x = self._resolve(kind, u, salt, base=x0)
            fct.set_variables(x)
            if how == 'f':
                val = fct.f()
            elif how == 'f_g_h':
                val = fct.f_g_h().function
            else:
                val = fct.f_g().function
            visited.append((x, val))
        ret = script['ret']
        if ret == 'last':
            xr = visited[-1][0]
        elif ret == 'first':
            xr = visited[0][0]
        else:
            finite = [v for v in visited if math.isfinite(v[1])] or visited
            xr = min(finite, key=lambda v: v[1])[0]
        if not math.isfinite(self._fref(xr)):
            xr = x0
        if self.cfg.get('kink') or self.cfg.get('cliff'):
            # the statistics computed by estimate() need finite derivatives at the returned point
            try:
                o = self.oracle.calculate_likelihood_and_derivatives(np.array(xr, dtype=float), scaled=False,
                                                                     hessian=True, bhhh=True)
                ok = all(bool(np.all(np.isfinite(np.asarray(v, dtype=float))))
                         for v in (o.function, o.gradient, o.hessian, o.bhhh))
            except Exception:
                ok = False
            if not ok:
                xr = x0
        return OptimizationResults(solution=np.array(xr), messages={'Algorithm': 'scripted'},
                                   convergence=True)

    # -- restart ---------------------------------------------------------------------
    def export_carry(self):
        return {'model_name': self.model_name}

    def restart_check(self):
        """I15.4: a new process builds the same specification with its original default
        values in the surviving directory and estimates."""
        ctx = self.ctx
        ctx.count('restarts')
        fname = self._fname()
        content = self.settled.get(fname)  # validated by _settle(strict) above
        ctx.probe('restart from file' if content is not None else 'restart without file')
        self.new_object()
        real = (not self.cfg.get('cliff')) and (not self.cfg.get('kink')) and self.cfg['K'] <= 10 and \
            random.Random(ctx.spec['run_seed'] + ctx.lifetime).random() < 0.35
        algo = 'simple_bounds' if real else 'scripted'
        r, info = self._estimate(algo, 0, {'pts': [], 'ret': 'first'}, oracle='I15.4')
        if r is None:
            return
        expect = dict(self._point([self.defaults[n] for n in self.names]))
        if content is not None:
            expect.update(content)
        if info['start'] != expect:
            ctx.violate('I15.4', 'restart did not begin at the saved values: started at '
                                 f'{self._show(info["start"])} but the file/defaults give {self._show(expect)}')
        # ("never below the original start" follows from I15.2 when the start was evaluated; a
        # history of direct evaluations that never visited the defaults is not constrained)
        if real:
            ctx.probe('restart with a real algorithm')
            # the property promises a restart that begins at the saved values (I15.4) and succeeds (I15.4.raise); where a real
            # algorithm then stops is its tolerance's and its bounds' business: a former clause I15.4L ("ends at the maximum
            # within 1e-5") reported a stop 6e-5 (relative) below the maximum - a false alarm - and was removed (DESIGN section 11)
            float(r.data.logLike)

    # -- operations -------------------------------------------------------------------
    def _estimate(self, algo, boot, script, oracle='I15.5', quick=False):
        ctx = self.ctx
        b = self.obj
        b.biogeme_parameters.set_value('optimization_algorithm', algo)
        if boot:
            b.biogeme_parameters.set_value('bootstrap_samples', boot)
        self.script = script
        self.in_estimate = {'start': None} if not quick else None
        fname = self._fname(b.modelName)
        if fname not in self.settled:
            self._settle(fname)
        before_file = self.settled.get(fname)
        cur = b.get_beta_values()
        before_vals = self._point([cur[n] for n in self.names])
        saving = self._saving(b)
        info = {'start': None}
        try:
            if quick:
                r = b.quick_estimate()
            else:
                # buggify: the estimation is asked to recycle earlier results; no result file is ever written in this world, so
                # it is an ordinary estimation (which starts from the saved values like any other)
                if (len(script.get('pts', [])) + boot) % 3 == 1:
                    self.ctx.probe('estimation asked to recycle results that do not exist')
                    r = b.estimate(recycle=True, run_bootstrap=bool(boot))
                else:
                    r = b.estimate(run_bootstrap=bool(boot))
        except OSError as e:
            if ctx.fs.fired.get('enospc') or ctx.fs.fired.get('eio'):
                ctx.log('ESTIMATE', 'oserror-after-injected-fault')
                self.in_estimate = None
                self.inflight = None
                self.boot = False
                self._settle(fname)
                return None, info
            self.ctx.fail(f'{oracle}.raise', f'estimate raised {type(e).__name__}: {e}')
        except Violation:
            raise
        except Exception as e:
            if ctx.pending is not None:
                raise ctx.pending
            from ..core import _classify_exception
            where, text = _classify_exception(e)
            if where == 'harness':
                raise
            if (self.cfg.get('cliff') or self.cfg.get('kink')) and 'infs or NaNs' in str(e):
                # the statistics of the final point failed on non-finite second derivatives (cliff / kink
                # workloads): outside C15; the file must still be complete
                ctx.count('estimate_failed_on_nonfinite_statistics')
                self.in_estimate = None
                self.inflight = None
                self.boot = False
                self._settle(fname)
                return None, info
            self.ctx.fail(f'{oracle}.raise', f'estimate raised {type(e).__name__}: {e}')
        finally:
            ie = self.in_estimate
            self.in_estimate = None
        self.boot_done = bool(boot)
        self.boot = False  # after estimate() returns, evaluations are on the estimation data again
        if not quick:
            info['start'] = ie.get('start')
            if info['start'] is None:
                self.ctx.fail(f'{oracle}', 'estimate() did not evaluate the likelihood at its starting point')
            if oracle == 'I15.5':
                # only the saved values are constrained by the property; without a file (or with
                # saving off) the starting point is whatever the object holds
                expect = None
                if saving and before_file is not None:
                    expect = dict(before_file)
                    ctx.probe('estimate started from an existing file')
                if expect is not None and info['start'] != expect:
                    ctx.violate('I15.5', 'estimation did not start from the saved values: started at '
                                         f'{self._show(info["start"])}, expected {self._show(expect)}')
        self._settle(fname)
        return r, info

    def apply(self, i, op):
        ctx = self.ctx
        kind = op['op']
        a = op['a']
        ctx.count('op:' + kind)
        np = self.np
        if kind == 'EVAL_D':
            x = self._resolve(a[0], a[1], a[2])
            arg = x if not a[6] else [float(v) for v in x]
            if a[6] and (self.cfg.get('cliff') or self.cfg.get('kink')):
                arg = x  # list input + non-finite gradient trips an unrelated AttributeError
            try:
                out = self.obj.calculate_likelihood_and_derivatives(arg, scaled=a[3], hessian=a[4], bhhh=a[5])
                ctx.log(kind, a[0], fhex(out.function))
            except OSError as e:
                if not (ctx.fs.fired.get('enospc') or ctx.fs.fired.get('eio')):
                    self.ctx.fail('I15.raise', f'evaluation raised {e!r}')
                ctx.log(kind, a[0], 'oserror-after-injected-fault')
        elif kind == 'FD_HESSIAN':
            # the finite-difference Hessian evaluates the likelihood with derivatives around a point: these evaluations
            # are evaluations like the others for the saved iterations
            x = self._resolve(a[0], a[1], a[2])
            if self.cfg.get('cliff') or self.cfg.get('kink') or self.cfg['K'] > 10:
                ctx.log(kind, 'skip')
            else:
                self.saving_as_set_by_user = self._saving(self.obj)
                try:
                    self.obj.likelihood_finite_difference_hessian(x)
                    ctx.log(kind, a[0])
                except OSError as e:
                    if not (ctx.fs.fired.get('enospc') or ctx.fs.fired.get('eio')):
                        self.ctx.fail('I15.raise', f'finite-difference Hessian raised {e!r}')
                    ctx.log(kind, a[0], 'oserror-after-injected-fault')
                finally:
                    self.saving_as_set_by_user = None
        elif kind == 'EVAL':
            x = self._resolve(a[0], a[1], a[2])
            fname = self._fname(self.obj.modelName)
            before = self._disk(fname)
            v = self.obj.calculate_likelihood(x, scaled=a[3])
            after = self._disk(fname)
            if before != after or ctx.fs.op_event:
                ctx.violate('I15.3', 'an evaluation without derivatives touched the iteration file')
            ctx.log(kind, a[0], fhex(v))
        elif kind == 'ESTIMATE':
            r, info = self._estimate(a[0], a[1], {'pts': op.get('pts', []), 'ret': a[2]})
            ctx.log(kind, a[0], a[1], fhex(r.data.logLike) if r is not None else None)
        elif kind == 'QUICK':
            r, info = self._estimate('scripted', 0, {'pts': op.get('pts', []), 'ret': 'best'}, quick=True)
            ctx.log(kind, fhex(r.data.logLike) if r is not None else None)
        elif kind == 'SAVE':
            self.obj.save_iterations = bool(a[0])
            ctx.log(kind, bool(a[0]))
        elif kind == 'RENAME':
            self.model_name = MODEL_NAMES[a[0]]
            self.obj.modelName = self.model_name
            self._settle(self._fname())
            ctx.log(kind, self.model_name)
        elif kind == 'NEW_OBJECT':
            self.new_object()
            ctx.log(kind)
        else:
            raise RuntimeError(f'unknown op {kind}')
        # quiescent point: every file complete
        for fname in list(self.settled):
            self._settle(fname)
        ctx.state([kind, {k: (sorted(v.items()) if v else None) for k, v in self.settled.items()},
                   len(self.epoch), self._saving(self.obj), self.model_name,
                   sorted(ctx.fs.fired.items())])

    def finish(self):
        self.ctx.fs.uninstall()


def nontrivial(spec, res) -> bool:
    p = res.get('probes', {})
    fired = res['fs']['fired']
    rew = p.get('file rewritten with a new best', 0)
    worse = p.get('worse point evaluated after a better one', 0)
    in_save = any(fired.get(k) for k in ('crash@fs', 'torn', 'short', 'enospc', 'eio'))
    return (rew >= 2 and worse >= 1) or in_save
