"""Specification faults planted into a running W-eval session (property C12, clauses a', b, c):
a planted fault produces no number; afterwards every valid specification of the session still
evaluates to its reference value; the missing-data code fails iff it is read."""

from __future__ import annotations

import copy
import math
import random

from .. import ref
from . import evalbase as eb

ENGINE_MARK = 'Biogeme exception'


def positions(ast, path=()):
    """All paths to sub-nodes that are arithmetic operands (where an element can be planted)."""
    out = []
    k = ast[0]
    if k in ('num', 'var', 'beta', 'ref', 'draws'):
        return [path]
    out.append(path)
    if k in ('elem',):
        for key in ast[1]:
            out += positions(ast[1][key], path + (1, key))
        out += positions(ast[2], path + (2,))
    elif k == 'condsum':
        for i, (c, t) in enumerate(ast[1]):
            out += positions(c, path + (1, i, 0))
            out += positions(t, path + (1, i, 1))
    elif k == 'multsum':
        for i, t in enumerate(ast[1]):
            out += positions(t, path + (1, i))
    elif k in ('loglogit', 'logit'):
        for key in ast[1]:
            out += positions(ast[1][key], path + (1, key))
        if ast[2] is not None:
            for key in ast[2]:
                out += positions(ast[2][key], path + (2, key))
        out += positions(ast[3], path + (3,))
    elif k in ('in', 'powc'):
        out += positions(ast[1], path + (1,))
    elif k == 'linutil':
        pass
    else:
        for i, c in enumerate(ast[1:], start=1):
            if isinstance(c, list):
                out += positions(c, path + (i,))
    return out


def get_at(ast, path):
    n = ast
    for p in path:
        n = n[p]
    return n


def set_at(ast, path, new):
    ast = copy.deepcopy(ast)
    if not path:
        return new
    n = ast
    for p in path[:-1]:
        n = n[p]
    n[path[-1]] = new
    return ast


def plant(ast, path, element):
    """Replace the node at `path` by (node + element) - keeps the surrounding operator kind."""
    old = get_at(ast, path)
    return set_at(ast, path, ['+', copy.deepcopy(old), element])


class FaultBuilder(ref.Builder):
    """Builder that knows the faulty elements."""

    def build(self, n):
        import biogeme.expressions as ex
        if n[0] == 'absent':
            return ex.Variable(n[1])
        if n[0] == 'betanamed':
            return ex.Beta(n[1], 0.1, None, None, 0)
        if n[0] == 'rawdraws':
            return ex.bioDraws('xi_out', 'NORMAL')
        if n[0] == 'rawrv':
            return ex.RandomVariable('omega_out')
        return super().build(n)


def expect_error(sess, what, fn, oracle='I12.1', survey=False, own_type=True):
    """The faulty operation must end in an exception and yield no number."""
    ctx = sess.ctx
    try:
        out = fn()
        if survey:
            ctx.count('survey:deep position accepted (undecided clause)')
            ctx.count(f'surveyd:{what.split(" planted")[0][:28]}|{what.rsplit("via ", 1)[-1]}|{what.split("(under ")[-1].split(")")[0]}|ACCEPTED')
            return False, False, None
    except Exception as e:
        if survey:
            ctx.count('survey:deep position refused by ' + type(e).__name__)
            ctx.count(f'surveyd:{what.split(" planted")[0][:28]}|{what.rsplit("via ", 1)[-1]}|{what.split("(under ")[-1].split(")")[0]}|{type(e).__name__}')
        if own_type:
            # clause (a): the library's own error type and an explanatory message, wherever the fault sits
            from biogeme.exceptions import BiogemeError
            from ..core import _classify_exception as _ce
            if _ce(e)[0] != 'harness' and (not isinstance(e, BiogemeError) or len(str(e).strip()) < 10):
                ctx.violate('I12.type', f'{what}: refused with {type(e).__name__}: {str(e)[:160]!r} instead of the '
                                        f"library's own error type with an explanatory message")
        from ..core import _classify_exception
        where, text = _classify_exception(e)
        if where == 'harness':
            raise
        ctx.count('fault_refused:' + type(e).__name__)
        ctx.count(f'refused_as:{what.split(" planted")[0].split(":")[0][:34]}:{type(e).__name__}')
        engine = ENGINE_MARK in str(e) or type(e).__name__ == 'RuntimeError'
        return True, engine, e
    # (known findings are recorded and the session goes on as after an undecided clause)
    ctx.violate(oracle, f'{what}: accepted and produced {str(out)[:120]!r}')
    return False, False, None


def recovery_probe(sess, after, engine=False):
    """Once a fault has been refused, a valid specification must still evaluate (same process).
    After an engine-raised error the probe runs in a forked copy of the process: the poisoned engine
    (known finding F8) sometimes dies with a signal instead of raising, and the session's own process
    must stay deterministic."""
    import os
    ctx = sess.ctx
    import biogeme.expressions as ex
    e = ex.Beta('rp', 0.5, None, None, 0) * ex.Variable('p0') + 1
    want = [0.5 * r['p0'] + 1 for r in sess.rows_for(0)]
    if engine:
        pid = os.fork()
        if pid == 0:
            code = 3
            try:
                got = e.get_value_c(database=sess.dbs[0], aggregation=False, prepare_ids=True)
                code = 0 if all(ref.close(float(g), w, 1e-10, 1e-12) for g, w in zip(got, want)) else 4
            except BaseException:
                code = 3
            os._exit(code)
        _, status = os.waitpid(pid, 0)
        ok = os.WIFEXITED(status) and os.WEXITSTATUS(status) == 0
        if os.WIFEXITED(status) and os.WEXITSTATUS(status) == 4:
            ctx.fail('I12.2', f'after an engine-raised error ({after}) a valid formula evaluates to a wrong value')
        if not ok:
            ctx.violate('I12.poison', f'after an engine-raised error ({after}) a valid formula on valid data is refused in the '
                                      f'same process (stale engine error, or the engine dies)')
        return ok
    try:
        got = e.get_value_c(database=sess.dbs[0], aggregation=False, prepare_ids=True)
    except Exception as ex_:
        from ..core import _classify_exception
        where, text = _classify_exception(ex_)
        if where == 'harness':
            raise
        ctx.fail('I12.2', f'after a refused specification ({after}) a valid formula on valid data is refused: '
                          f'{type(ex_).__name__}: {str(ex_)[:200]}')
    sess.cmp('valid formula after a refused fault', list(got), want, oracle='I12.2')
    return True


def _as_given(salt, formula):
    """The two ways of handing a likelihood to a BIOGEME object: the formula itself, or a dictionary of formulas."""
    which = (salt // 4) % 3
    if which == 0:
        return formula
    if which == 1:
        return {'log_like': formula}
    return {'loglike': formula, 'weight': 1.0 + 0 * formula} if False else {'loglike': formula}


def _as_given_name(salt):
    return ['formula given as such', "dictionary {'log_like': formula}", "dictionary {'loglike': formula}"][(salt // 4) % 3]


def _bad_avs(salt):
    """Availability dictionaries that do not match utilities 1, 2, 3: a key renamed, one key too many, one missing."""
    return [{'1': ['var', 'av1'], '2': ['var', 'av2'], '4': ['var', 'av3']},
            {'1': ['var', 'av1'], '2': ['var', 'av2'], '3': ['var', 'av3'], '4': ['var', 'av3']},
            {'1': ['var', 'av1'], '2': ['var', 'av2']}][(salt // 2) % 3]


def _nested_entry(salt, utils, nests, choice):
    """The public functions that build a nested logit: each of them has to refuse invalid nests."""
    import biogeme.expressions as ex
    from biogeme import models
    which = (salt // 2) % 5
    if which == 0:
        return models.lognested(utils, None, nests, choice)
    if which == 1:
        return ex.log(models.nested(utils, None, nests, choice))
    if which == 2:
        return models.lognested_mev_mu(utils, None, nests, choice, ex.Numeric(1.0))
    if which == 3:
        return ex.log(models.nested_mev_mu(utils, None, nests, choice, ex.Numeric(1.0)))
    logg = models.get_mev_for_nested(utils, None, nests)
    return logg[1] if isinstance(logg, dict) else logg


def apply_fault(sess, a):
    ctx = sess.ctx
    kind, sel, salt, entry = a
    rng = random.Random(salt)
    import biogeme.biogeme as bio
    import biogeme.database as db
    import biogeme.expressions as ex
    from biogeme.parameters import Parameters
    ctx.count('fault:' + kind)
    sess.fault_seen = True
    fi = sel % len(sess.formulas)
    base = sess.formulas[fi]
    dbi = salt % 2
    engine = False

    def params():
        p = Parameters()
        p.set_value('save_iterations', False)
        # one thread on the error path: several engine threads failing at once race on the engine's
        # static exception pointer and occasionally kill the process (observed, see DESIGN F16)
        p.set_value('number_of_threads', 1)
        p.set_value('missing_data', sess.cfg['missing'])
        return p

    def run(ast, data=None, gradient=True, hessian=False):
        fb = FaultBuilder(dict(sess.builder.beta_specs), pool=sess.pool, share_elementary=True)
        # faulty formulas share the session's Beta / Variable objects (collateral damage must not happen)
        fb.betas = sess.builder.betas
        fb.vars = sess.builder.vars
        fb.refs = sess.builder.refs
        e = fb.build(ast)
        d = data if data is not None else sess.dbs[dbi]
        if entry != 'biogeme' and data is None:
            # expression evaluation always uses up to 4 engine threads: keep the error path single-threaded
            d = db.Database('one', sess.dbs[dbi].data.iloc[[salt % len(sess.dbs[dbi].data)]].reset_index(drop=True))
        if entry == 'biogeme' and (salt // 64) % 4 == 1 and ast is not base:
            # the faulty formula is not the likelihood but another entry of the dictionary of formulas (to be simulated)
            ctx.probe('faulty formula handed over next to a valid likelihood')
            b = bio.BIOGEME(d, {'log_like': fb.build(base), 'extra': e}, parameters=params())
            out = b.simulate({n: eb.BETA_VALUES.get(n, 0.1) for n in b.free_beta_names})
            return float(out['extra'].sum())
        if entry == 'biogeme':
            b = bio.BIOGEME(d, e, parameters=params())
            x = [eb.BETA_VALUES.get(n, 0.1) for n in b.free_beta_names]
            return b.calculate_likelihood(x, scaled=False)
        if entry == 'derivatives':
            return e.get_value_and_derivatives(database=d, aggregation=True, prepare_ids=True, gradient=gradient,
                                               hessian=hessian, bhhh=False).function
        return e.get_value_c(database=d, aggregation=True, prepare_ids=True)

    pos = positions(base)
    path = pos[salt % len(pos)]
    survey = False   # every position is decided since the audit fixes (DESIGN section 11, F6 family)
    under = 'root'
    for cut in range(len(path) - 1, -1, -1):
        node = get_at(base, path[:cut])
        if isinstance(node, list) and node and isinstance(node[0], str):
            under = node[0]
            break
    ctx.count('fault_under:' + under)
    where = f'formula {fi}, position {list(path)} (under {under}), via {entry}'
    # operator kinds the generator of valid formulas never nests that way carry the faulty element in a third of the cases:
    # a comparison of a comparison, a set membership, a logical operator
    cw = (salt // 8) % 6

    def carried(x_):
        if cw == 0:
            return ['==', ['>', x_, ['num', 2.0]], ['>', ['var', 'c0'], ['num', 1.5]]]
        if cw == 1:
            return ['in', x_, [1.0, 2.0]]
        if cw == 2:
            return ['and', ['>', x_, ['num', 0.5]], ['num', 1.0]]
        if cw == 4:
            # a term of a conditional sum that a constant flag switches off
            terms_ = [[['num', 0.0], x_], [['num', 1.0], ['var', 'c0']]]
            return ['condsum', terms_ if salt % 2 else terms_[::-1]]
        return x_
    carrier_name = {0: ', inside a comparison of a comparison', 1: ', as the argument of a set membership',
                    2: ', inside a logical operator', 4: ', in a term of a conditional sum switched off by a constant'}.get(cw, '')
    where += carrier_name
    if kind == 'absent_column':
        absent_ = carried(['absent', 'nope'])
        if cw == 3:
            # the absent column as one of the terms of a linear-utility operator
            absent_ = ['linutil', [['b0', 'nope'], ['b1', 'c0']] if salt % 2 else [['b1', 'c0'], ['b0', 'nope']]]
            where += ', as a term of a linear-utility operator'
        ok, engine, e = expect_error(sess, f'absent column planted in {where}', lambda: run(plant(base, path, absent_)), survey=survey)
    elif kind == 'dup_name':
        ok, engine, e = expect_error(sess, f'parameter named like column c0 planted in {where}',
                                     lambda: run(plant(base, path, carried(['betanamed', 'c0']))), survey=survey)
    elif kind == 'draws_outside':
        ok, engine, e = expect_error(sess, f'draws outside MonteCarlo planted in {where}',
                                     lambda: run(plant(base, path, carried(['rawdraws']))), survey=survey)
    elif kind == 'rv_outside':
        ok, engine, e = expect_error(sess, f'integration variable outside Integrate planted in {where}',
                                     lambda: run(plant(base, path, carried(['rawrv']))), survey=survey)
    elif kind == 'hess_without_grad':
        def f():
            e_ = sess.expr(fi)
            return e_.get_value_and_derivatives(database=sess.dbs[dbi], aggregation=True, prepare_ids=True,
                                                gradient=False, hessian=True, bhhh=False).function
        ok, engine, e = expect_error(sess, f'second derivatives without first ones for formula {fi}', f)
    elif kind == 'bad_choice_key':
        if (salt // 4) % 3 == 0:
            # a choice that is not the identifier of any alternative because it is not an integer (1.5, 2.5, 3.5)
            utils3 = {'1': ['beta', 'b0'], '2': ['*', ['beta', 'b1'], ['var', 'c0']], '3': ['num', 0.0]}
            avs3 = {str(k_): ['var', f'av{k_}'] for k_ in (1, 2, 3)} if salt % 2 else None
            ast = ['loglogit', utils3, avs3, ['+', ['var', 'ch'], ['num', 0.5]]]
            ok, engine, e = expect_error(sess, f'choice that is not an integer, via {entry}', lambda: run(plant(base, path, ast)),
                                         survey=survey)
        else:
            utils = {'1': ['beta', 'b0'], '2': ['*', ['beta', 'b1'], ['var', 'c0']]}   # the choice column also takes 3
            ast = ['loglogit', utils, None, ['var', 'ch']]
            rows = sess.rows_for(dbi)
            if entry != 'biogeme':
                rows = [rows[salt % len(rows)]]
            if all(r['ch'] != 3 for r in rows):
                ctx.log('FAULT', kind, 'skip-no-such-row')
                return
            ok, engine, e = expect_error(sess, f'choice value without a utility, via {entry}', lambda: run(plant(base, path, ast)), survey=survey)
    elif kind == 'bad_avail_keys':
        utils = {'1': ['beta', 'b0'], '2': ['var', 'c0'], '3': ['beta', 'b1']}
        avs = _bad_avs(salt)
        if (salt // 6) % 3 == 2:
            # the same inconsistency handed to a model of the MEV family (nested logit)
            from biogeme.nests import OneNestForNestedLogit, NestsForNestedLogit
            from biogeme import models

            def f():
                fb = ref.Builder(eb.beta_specs(), pool=sess.pool, share_elementary=False)
                nests = NestsForNestedLogit([1, 2, 3], (OneNestForNestedLogit(ex.Beta('mu_av', 1.5, 1, 10, 0), [1, 2], 'a'),))
                lp = models.lognested({int(k_): fb.build(v_) for k_, v_ in utils.items()},
                                      {int(k_): fb.build(v_) for k_, v_ in avs.items()}, nests, ex.Variable('ch'))
                return lp.get_value_c(database=sess.dbs[dbi], aggregation=True, prepare_ids=True)
            ok, engine, e = expect_error(sess, f'availability keys {sorted(avs)} inconsistent with the utilities {sorted(utils)}, '
                                               f'nested logit', f)
        else:
            ok, engine, e = expect_error(sess, f'availability keys {sorted(avs)} inconsistent with the utilities {sorted(utils)}, via {entry}',
                                         lambda: run(plant(base, path, ['loglogit', utils, avs, ['var', 'ch']])), survey=survey)
    elif kind == 'empty_avail':
        utils = {'1': ['beta', 'b0'], '2': ['var', 'c0'], '3': ['beta', 'b1']}
        ok, engine, e = expect_error(sess, f'empty availability dictionary for three utilities, in {where}',
                                     lambda: run(plant(base, path, ['loglogit', utils, {}, ['var', 'ch']])))
    elif kind == 'bad_avail_keys_kept':
        # the numbering is prepared first (prepare()), the faulty formula is then evaluated with prepare_ids=False
        utils = {'1': ['beta', 'b0'], '2': ['var', 'c0'], '3': ['beta', 'b1']}
        avs = _bad_avs(salt)

        def f():
            fb = FaultBuilder(eb.beta_specs(), pool=sess.pool, share_elementary=False)
            e_ = fb.build(plant(base, path, ['loglogit', utils, avs, ['var', 'ch']]))
            d_ = db.Database('one', sess.dbs[dbi].data.iloc[[salt % len(sess.dbs[dbi].data)]].reset_index(drop=True))
            e_.prepare(d_, 10)
            return e_.get_value_c(database=d_, aggregation=True, prepare_ids=False)
        ok, engine, e = expect_error(sess, f'availability keys inconsistent with the utilities, numbering kept, in {where}', f)
    elif kind == 'nan_inplace':
        # a table that was valid when the Database was created, then a NaN written into it in place
        t = sess.tables[dbi].copy()
        d_ = db.Database('inplace', t)
        col_ = t.columns[salt % len(t.columns)]
        d_.data.loc[d_.data.index[salt % len(t)], col_] = float('nan')
        entry = 'biogeme'    # the table is audited again when a BIOGEME object is built on it
        ok, engine, e = expect_error(sess, f'NaN written in place into column {col_} of an audited table, via BIOGEME',
                                     lambda: run(base, data=d_))
    elif kind == 'hess_without_grad_kept':
        def f():
            e_ = sess.expr(fi)
            e_.prepare(sess.dbs[dbi], 10)
            return e_.get_value_and_derivatives(database=sess.dbs[dbi], aggregation=True, prepare_ids=False,
                                                gradient=False, hessian=True, bhhh=False).function
        ok, engine, e = expect_error(sess, f'second derivatives without first ones for formula {fi} (numbering kept)', f)
        sess.biogemes = []     # prepare() renumbered the shared nodes
    elif kind == 'pandas_dropped_column':
        t = sess.tables[dbi].copy()
        d_ = db.Database('dropped', t)
        d_.data.drop(columns=['c1'], inplace=True)
        ok, engine, e = expect_error(sess, f'column c1 dropped with pandas after the Database was created, used in {where}',
                                     lambda: run(plant(base, path, ['var', 'c1']), data=d_))
    elif kind == 'pandas_added_column':
        # VALID: a column added with pandas after the Database was created is a column like any other
        t = sess.tables[dbi].copy()
        d_ = db.Database('added', t)
        d_.data['znew'] = d_.data['c0'] * 2.0 + 1.0
        ast2 = ['+', base, ['var', 'znew']]
        betas_ = dict(eb.BETA_VALUES)
        rows_ = eb.rows_of(d_.data)
        try:
            want_ = eb.ref_rows(ast2, sess.pool, rows_, betas_)
        except (ref.RefError, OverflowError, ZeroDivisionError, ValueError):
            ctx.log('FAULT', kind, 'skip-domain')
            return
        fb = FaultBuilder(eb.beta_specs(), pool=sess.pool, share_elementary=False)
        e_ = fb.build(ast2)
        try:
            got_ = e_.get_value_c(database=d_, aggregation=False, prepare_ids=True)
            b_ = bio.BIOGEME(d_, {'log_like': fb.build(ast2)}, parameters=params())
            ll_ = float(b_.calculate_likelihood([betas_[n_] for n_ in b_.free_beta_names], scaled=False))
        except Exception as ex_:
            from ..core import _classify_exception
            if _classify_exception(ex_)[0] == 'harness':
                raise
            ctx.fail('I12.reject', f'a valid formula using a column added to the table with pandas is refused: '
                                   f'{type(ex_).__name__}: {str(ex_)[:200]}')
        sess.cmp('formula using a column added with pandas', list(got_), want_, oracle='I12.reject')
        sess.cmp('likelihood using a column added with pandas', [ll_], [sum(want_)], oracle='I12.reject')
        ctx.probe('valid specification on a table changed with pandas')
        ctx.log('FAULT', kind, 'accepted-as-it-must')
        return
    elif kind in ('nan_data', 'text_data', 'empty_data'):
        t = sess.tables[dbi].copy()
        if kind == 'nan_data':
            t.loc[t.index[salt % len(t)], t.columns[salt % len(t.columns)]] = float('nan')
            fn = lambda: run(base, data=db.Database('bad', t))
        elif kind == 'text_data':
            t[t.columns[salt % len(t.columns)]] = t[t.columns[salt % len(t.columns)]].astype(object)
            t.loc[t.index[salt % len(t)], t.columns[salt % len(t.columns)]] = 'abc'
            if (salt // 3) % 3 == 0:
                # a column of dates (what parse_dates leaves behind): not numbers either, and not stored as objects
                import pandas as pd
                t = sess.tables[dbi].copy()
                t[t.columns[salt % len(t.columns)]] = pd.to_datetime(['2024-01-01'] * len(t)) + pd.to_timedelta(range(len(t)), unit='D')
                kind = 'text_data (a column of dates)'
            fn = lambda: run(base, data=db.Database('bad', t))
        elif salt % 2:
            fn = lambda: run(base, data=db.Database('bad', t.iloc[0:0]))
        else:
            # a valid table, emptied afterwards by removing every observation
            as_panel = bool((salt // 2) % 2)

            def fn():
                d_ = db.Database('emptied', t.sort_values('ch', kind='stable').reset_index(drop=True) if as_panel else t)
                if as_panel:
                    d_.panel('ch')
                d_.remove(ex.Variable('c0') > -100)
                return run(base, data=d_)
            kind = 'empty_data (table emptied by remove()' + (', declared panel before' if as_panel else '') + ')'
        ok, engine, e = expect_error(sess, f'{kind} table, via {entry}', fn)
    elif kind == 'panel_outside':
        t = sess.tables[dbi].copy().sort_values('ch', kind='stable').reset_index(drop=True)
        d = db.Database('pan', t)
        d.panel('ch')

        def f():
            fb = ref.Builder(eb.beta_specs(), pool=sess.pool, share_elementary=False)
            inner = fb.build(['exp', ['*', ['num', -0.1], ['*', ['beta', 'b0'], ['var', 'c0']]]])
            # the variable outside the trajectory: an ordinary column, or the column that identifies the individuals
            outside_ = ['var', 'ch' if (salt // 16) % 3 == 0 else 'c1']
            e_ = ex.log(ex.PanelLikelihoodTrajectory(inner)) + fb.build(plant(base, path, outside_))
            b = bio.BIOGEME(d, _as_given(salt, e_), parameters=params())
            return b.calculate_likelihood([0.1] * len(b.free_beta_names), scaled=False)
        ok, engine, e = expect_error(sess, f'data variables outside the trajectory on panel data (formula {fi}, '
                                           f'{_as_given_name(salt)})', f)
    elif kind == 'panel_outside_mc':
        # on panel data, a data variable inside the Monte-Carlo operator but outside the trajectory
        t = sess.tables[dbi].copy().sort_values('ch', kind='stable').reset_index(drop=True)
        d = db.Database('panmc', t)
        d.panel('ch')

        def f():
            fb = ref.Builder(eb.beta_specs(), pool=sess.pool, share_elementary=False)
            xi = ex.bioDraws('xi_p', 'NORMAL')
            inner = ex.exp(-0.1 * (fb.build(['beta', 'b0']) + 0.1 * xi) * ex.Variable('c0'))
            e_ = ex.log(ex.MonteCarlo(ex.PanelLikelihoodTrajectory(inner) * ex.exp(0.01 * ex.Variable('c1'))))
            p_ = params()
            p_.set_value('number_of_draws', 4)
            b = bio.BIOGEME(d, _as_given(salt, e_), parameters=p_)
            return b.calculate_likelihood([0.1] * len(b.free_beta_names), scaled=False)
        ok, engine, e = expect_error(sess, f'data variable inside MonteCarlo but outside the trajectory on panel data '
                                           f'({_as_given_name(salt)})', f)
    elif kind == 'nests_overlap_far':
        from biogeme.nests import OneNestForNestedLogit, NestsForNestedLogit
        from biogeme import models

        def f():
            mus = [ex.Beta(f'mu{i}', 1.2 + 0.1 * i, 1, 10, 0) for i in range(3)]
            # the first and the LAST nest share alternative 2 (not adjacent in the list)
            nests = NestsForNestedLogit([1, 2, 3, 4, 5], (OneNestForNestedLogit(mus[0], [1, 2], 'a'),
                                                          OneNestForNestedLogit(mus[1], [3, 4], 'b'),
                                                          OneNestForNestedLogit(mus[2], [2, 5], 'c')))
            fb = ref.Builder(eb.beta_specs(), pool=sess.pool, share_elementary=False)
            utils = {1: fb.build(['beta', 'b0']), 2: fb.build(['*', ['beta', 'b1'], ['var', 'c0']]), 3: fb.build(['num', 0.0]),
                     4: fb.build(['beta', 'b2']), 5: fb.build(['var', 'c1'])}
            lp = _nested_entry(salt, utils, nests, ex.Variable('ch'))
            return lp.get_value_c(database=sess.dbs[dbi], aggregation=True, prepare_ids=True)
        ok, engine, e = expect_error(sess, 'nests_overlap_far', f)
    elif kind in ('nests_overlap', 'nests_outside'):
        from biogeme.nests import OneNestForNestedLogit, NestsForNestedLogit
        from biogeme import models

        def f():
            mu1 = ex.Beta('mu1', 1.5, 1, 10, 0)
            mu2 = ex.Beta('mu2', 1.2, 1, 10, 0)
            if kind == 'nests_overlap':
                nests = NestsForNestedLogit([1, 2, 3], (OneNestForNestedLogit(mu1, [1, 2], 'a'),
                                                        OneNestForNestedLogit(mu2, [2, 3], 'b')))
            elif (salt // 4) % 2:
                nests = NestsForNestedLogit([1, 2, 3], (OneNestForNestedLogit(mu1, [1, 5], 'a'),
                                                        OneNestForNestedLogit(mu2, [2, 3], 'b')))
            else:
                # valid when the object is built, an alternative outside the choice set is added to a nest afterwards
                first_ = OneNestForNestedLogit(mu1, [1], 'a')
                nests = NestsForNestedLogit([1, 2, 3], (first_, OneNestForNestedLogit(mu2, [2, 3], 'b')))
                first_.list_of_alternatives.append(5)
            fb = ref.Builder(eb.beta_specs(), pool=sess.pool, share_elementary=False)
            utils = {1: fb.build(['beta', 'b0']), 2: fb.build(['*', ['beta', 'b1'], ['var', 'c0']]), 3: fb.build(['num', 0.0])}
            lp = _nested_entry(salt, utils, nests, ex.Variable('ch'))
            return lp.get_value_c(database=sess.dbs[dbi], aggregation=True, prepare_ids=True)
        ok, engine, e = expect_error(sess, f'{kind}', f)
    elif kind == 'column_renamed_before_simulate':
        # an object with several formulas; a column read by a formula that is NOT the last one is then renamed in the table;
        # simulate() audits the formulas again and refuses
        fb = ref.Builder(eb.beta_specs(), pool=sess.pool, share_elementary=False)
        t_ = sess.tables[dbi].copy()
        d_ = db.Database('ren', t_)
        n_forms = 2 + salt % 2
        forms = {'first': fb.build(['+', ['*', ['beta', 'b0'], ['var', 'c0']], ['var', 'c1']]),
                 'second': fb.build(['*', ['beta', 'b1'], ['var', 'p0']])}
        if n_forms == 3:
            forms['third'] = fb.build(['+', ['var', 'p1'], ['num', 1.0]])
        B_ = bio.BIOGEME(d_, forms, parameters=params())
        d_.data = d_.data.rename(columns={'c1': 'c1_renamed'})
        ok, engine, e = expect_error(sess, f'column c1 renamed after the object was built, then simulate() ({n_forms} formulas, '
                                           f'the first one reads it)', lambda: B_.simulate({'b0': 0.1, 'b1': 0.2}))
    elif kind == 'catalog_entry_fault':
        # a catalog with a valid entry (selected when the object is built) and a faulty one (a column that is not in the
        # data, as such or inside a condition): estimate_catalog() reaches the faulty entry, which must be refused like the
        # same formula handed over directly
        from biogeme.catalog import Catalog
        from biogeme.configuration import Configuration
        from ..fs import REAL_OPEN
        import os as _os
        if not _os.path.exists('biogeme.toml'):
            with REAL_OPEN('biogeme.toml', 'w', encoding='utf-8') as f_:
                f_.write('')        # estimate_catalog builds objects that read the default parameter file: empty = defaults
        cb_ = ex.Beta('ce_beta', 0.1, None, None, 0)
        bad_ = (cb_ * ex.Variable('not_in_the_data')) if salt % 2 else (cb_ * ex.Variable('c0') * (ex.Variable('also_absent') > 0))
        cat_ = Catalog.from_dict('ce_spec', {'linear': cb_ * ex.Variable('c0'), 'faulty': bad_})
        dev_ = cat_ - ex.Variable('c1')
        B_ = bio.BIOGEME(sess.dbs[dbi], -(dev_ * dev_) - 0.1 * cb_ * cb_, parameters=params())
        B_.modelName = 'ce_model'
        ok, engine, e = expect_error(
            sess, 'catalog entry referring to an absent column, reached through estimate_catalog()',
            lambda: B_.estimate_catalog(selected_configurations={Configuration.from_string('ce_spec:faulty')}))
    elif kind == 'cnl_outside':
        # cross-nested logit: an alternative that is not in the choice set appears in ONE of three nests (any position)
        from biogeme.nests import OneNestForCrossNestedLogit, NestsForCrossNestedLogit
        from biogeme import models
        position = (salt // 2) % 3

        def f():
            contents = [{1: ex.Beta('cnl_a11', 0.5, 0, 1, 0), 2: 1.0}, {1: ex.Beta('cnl_a21', 0.5, 0, 1, 0), 3: 1.0}, {3: 1.0}]
            contents[position][7] = ex.Beta('cnl_foreign', 0.5, 0, 1, 0)
            nests = tuple(OneNestForCrossNestedLogit(nest_param=ex.Beta(f'cnl_mu_{k_}', 1.5, 1, None, 0), dict_of_alpha=c_,
                                                     name=f'nest_{k_}') for k_, c_ in enumerate(contents))
            the_nests = NestsForCrossNestedLogit(choice_set=[1, 2, 3], tuple_of_nests=nests)
            fb = ref.Builder(eb.beta_specs(), pool=sess.pool, share_elementary=False)
            utils = {1: fb.build(['beta', 'b0']), 2: fb.build(['*', ['beta', 'b1'], ['var', 'c0']]), 3: fb.build(['num', 0.0])}
            lp = models.logcnl(utils, None, the_nests, ex.Variable('ch'))
            return lp.get_value_c(database=sess.dbs[dbi], aggregation=True, prepare_ids=True)
        ok, engine, e = expect_error(sess, f'cross-nested logit: alternative outside the choice set in nest {position} of 3', f)
    elif kind == 'mc_catalog_switch':
        # ONE formula whose validity depends on the alternative selected in a catalog: with 'fixed' the integrand of the
        # Monte-Carlo operator holds no draws (invalid), with 'normal' it does (valid). Whatever was selected, audited
        # or evaluated before, the selection in force decides: the invalid one is refused, the valid one gives the value
        # of the same formula written by hand.
        from biogeme.catalog import Catalog
        import numpy as np_
        beta_ = ex.Beta('mcb', 0.2, None, None, 0)
        sigma_ = ex.Beta('mcs', 0.5, None, None, 0)

        def model(term):
            return ex.log(ex.MonteCarlo(ex.exp(-((ex.Variable('u') - beta_ * ex.Variable('p0') - term) ** 2))))
        d_ = sess.dbs[dbi]
        np_.random.seed(90267 + salt)
        want_ = [float(v_) for v_ in model(sigma_ * ex.bioDraws('mc_eps', 'NORMAL')).get_value_c(
            database=d_, number_of_draws=20, prepare_ids=True)]
        term_ = Catalog.from_dict('mc_error_term', {'fixed': ex.Numeric(0), 'normal': sigma_ * ex.bioDraws('mc_eps', 'NORMAL')})
        formula_ = model(term_)
        order = ['fixed', 'normal', 'fixed'] if salt % 2 else ['normal', 'fixed', 'normal']
        e = None
        for step_, sel_ in enumerate(order):
            term_.controlled_by.set_name(sel_)
            if sel_ == 'fixed':
                ok, engine, e = expect_error(
                    sess, f'Monte-Carlo operator without draws (catalog on "fixed", step {step_} of {order})',
                    lambda: formula_.get_value_c(database=d_, number_of_draws=20, prepare_ids=True))
                if engine:
                    break
            else:
                np_.random.seed(90267 + salt)
                got_ = sess.lib(f'valid Monte-Carlo formula (catalog on "normal", step {step_} of {order})',
                                lambda: [float(v_) for v_ in formula_.get_value_c(database=d_, number_of_draws=20,
                                                                                  prepare_ids=True)], oracle='I12.2')
                if got_ is not None:
                    sess.cmp(f'valid Monte-Carlo formula after the catalog was switched (step {step_} of {order})',
                             got_, want_, oracle='I12.2')
        ctx.probe('validity switched by a catalog selection')
    elif kind in ('missing_read', 'missing_unread'):
        return missing(sess, kind, fi, dbi, salt, entry)
    else:
        raise RuntimeError(kind)
    if e is None:
        ctx.log('FAULT', kind, entry, 'survey-accepted')
        return
    ctx.log('FAULT', kind, entry, type(e).__name__, 'engine' if engine else 'python')
    after_error(sess, engine, f'{kind} via {entry}')


def after_error(sess, engine, what):
    ctx = sess.ctx
    if engine:
        ctx.probe('engine-raised error')
        okp = recovery_probe(sess, what, engine=True)
        # known finding F8: the engine keeps the first error of a process; the rest of the session runs in a
        # new simulated process, where recovery is compulsory
        sess.carry_flag = {'after_poison': what, 'recovered_in_process': okp}
        ctx.count('fault:process-restart')
        ctx.carry_out = sess.export_carry()
        ctx.crash('restart after an engine-raised error')
    else:
        recovery_probe(sess, what)
        ctx.probe('python-level refusal')


def logit_audit_columns(ast, pool, acc=None, seen=None):
    """Columns that the audit of the logit nodes of a formula evaluates on EVERY row (choice and
    availabilities), wherever the logit sits."""
    acc = set() if acc is None else acc
    seen = set() if seen is None else seen
    if not isinstance(ast, list) or not ast or not isinstance(ast[0], str):
        return acc
    k = ast[0]
    if k == 'ref':
        if ast[1] not in seen:
            seen.add(ast[1])
            logit_audit_columns(pool[ast[1]], pool, acc, seen)
        return acc
    if k in ('loglogit', 'logit'):
        names = ref.collect(ast[3], pool)['var']
        if ast[2] is not None:
            for v in ast[2].values():
                names |= ref.collect(v, pool)['var']
        acc |= names
        for v in ast[1].values():
            logit_audit_columns(v, pool, acc, seen)
        return acc
    if k == 'elem':
        for v in ast[1].values():
            logit_audit_columns(v, pool, acc, seen)
        logit_audit_columns(ast[2], pool, acc, seen)
    elif k == 'condsum':
        for c, t in ast[1]:
            logit_audit_columns(c, pool, acc, seen)
            logit_audit_columns(t, pool, acc, seen)
    elif k == 'multsum':
        for t in ast[1]:
            logit_audit_columns(t, pool, acc, seen)
    else:
        for c in ast[1:]:
            logit_audit_columns(c, pool, acc, seen)
    return acc


def missing(sess, kind, fi, dbi, salt, entry):
    """The declared missing-data code in a cell the formula reads / does not read for that row."""
    ctx = sess.ctx
    import biogeme.biogeme as bio
    import biogeme.database as db
    from biogeme.parameters import Parameters
    code = float(sess.cfg['missing'])
    betas = {**eb.BETA_VALUES, **getattr(sess, 'fixed_now', {})}
    rows = sess.rows_for(dbi)
    ast = sess.formulas[fi]
    if sess.valid_at(fi, betas, dbi) is None:
        ctx.log('FAULT', kind, 'skip-domain')
        return
    r = salt % len(rows)
    env = ref.Env(rows[r], betas, pool=sess.pool)
    ref.ev(ast, env)
    read = sorted(env.reads)
    cols = [c for c in sess.tables[dbi].columns]
    unread = [c for c in cols if c not in env.reads]
    if kind == 'missing_read':
        if not read:
            ctx.log('FAULT', kind, 'skip-no-read')
            return
        col = read[salt % len(read)]
    else:
        if not unread:
            ctx.log('FAULT', kind, 'skip-all-read')
            return
        col = unread[salt % len(unread)]
    t = sess.dbs[dbi].data.copy()
    t.loc[t.index[r], col] = code
    # is the reference still defined? (the planted code may move other rows' branches; only row r changed)
    rows2 = eb.rows_of(t)
    env2 = ref.Env(rows2[r], betas, pool=sess.pool, missing=code)
    try:
        ref.ev(ast, env2)
        defined = True
    except (ref.RefError, OverflowError, ZeroDivisionError, ValueError):
        defined = False
    reads_missing = env2.read_missing
    if kind == 'missing_unread' and (reads_missing or env2.maybe_missing or not defined or col in env.reads_maybe):
        ctx.log('FAULT', kind, 'skip-becomes-read')
        return
    if kind == 'missing_read' and (col not in env2.reads or not env2.read_missing):
        # only read as the right operand of a decided and/or: not specified
        ctx.log('FAULT', kind, 'skip-maybe-read')
        return
    d = db.Database('miss', t)
    p = Parameters()
    p.set_value('save_iterations', False)
    p.set_value('missing_data', sess.cfg['missing'])
    p.set_value('number_of_threads', 1)
    e = sess.expr(fi)
    sess.fault_seen = True
    what = f'missing-data code {code} in column {col} of row {r} (formula {fi}, via {entry})'
    if kind == 'missing_unread':
        ctx.probe('missing code in a cell the formula does not read')
        want = eb.ref_rows(ast, sess.pool, rows2, betas)
        try:
            b = bio.BIOGEME(d, {'log_like': e}, parameters=p)
            x = [betas[n] for n in b.free_beta_names]
            v = float(b.calculate_likelihood(x, scaled=False))
            sim = b.simulate({n: betas[n] for n in b.free_beta_names})
        except Exception as ex_:
            from ..core import _classify_exception
            where, text = _classify_exception(ex_)
            if where == 'harness':
                raise
            if col in logit_audit_columns(ast, sess.pool):
                # known finding F17: the audit of a logit evaluates its choice and availabilities on every row
                ctx.violate('I12.3a', f'{what}: the formula does not read that cell for that observation (the logit sits '
                                      f'in a branch that is not taken), but the audit of the logit evaluates column {col} '
                                      f'on every row and the model is refused')
                after_error(sess, True, what)
                return
            ctx.fail('I12.3u', f'{what}: the formula does not read that cell, but the evaluation was refused: '
                               f'{type(ex_).__name__}: {str(ex_)[:200]}')
        sess.cmp(f'{what}: likelihood', [v], [sum(want)], oracle='I12.3u')
        sess.cmp(f'{what}: simulate', sim['log_like'].to_list(), want, oracle='I12.3u')
        ctx.log('FAULT', kind, col, r, 'harmless')
        return
    only_linear = col in env.reads_lin and col not in env.reads_var
    ctx.probe('missing code in a cell the formula reads' + (' (through a linear-utility term only)' if only_linear else ''))
    if only_linear:
        # known finding F15: the engine's linear utility does not check the missing-data code
        try:
            b = bio.BIOGEME(d, {'log_like': e}, parameters=p)
            x = [betas[n] for n in b.free_beta_names]
            v = float(b.calculate_likelihood(x, scaled=False))
        except Exception as ex_:
            ctx.log('FAULT', kind, col, r, 'linear-refused', type(ex_).__name__)
            after_error(sess, ENGINE_MARK in str(ex_) or type(ex_).__name__ == 'RuntimeError', what)
            return
        ctx.violate('I12.3l', f'a linear-utility term read the missing-data code (column {col}, row {r}) and the '
                              f'likelihood returned the number {v!r} instead of failing')
        ctx.log('FAULT', kind, col, r, 'linear-silent')
        return
    # read: the evaluation must fail with an error, through the likelihood and through simulate
    try:
        b = bio.BIOGEME(d, {'log_like': e}, parameters=p)
    except Exception as ex_:
        ctx.log('FAULT', kind, col, r, 'refused-at-construction', type(ex_).__name__)
        after_error(sess, ENGINE_MARK in str(ex_) or type(ex_).__name__ == 'RuntimeError', what)
        return
    x = [betas[n] for n in b.free_beta_names]
    if entry == 'biogeme' or entry == 'derivatives':
        ok, engine, err = expect_error(sess, f'{what}: likelihood', lambda: b.calculate_likelihood(x, scaled=False),
                                       oracle='I12.3r', own_type=False)
        ctx.log('FAULT', kind, col, r, type(err).__name__)
        after_error(sess, engine, what)
    else:
        try:
            sim = b.simulate({n: betas[n] for n in b.free_beta_names})
        except Exception as ex_:
            from ..core import _classify_exception
            where, text = _classify_exception(ex_)
            if where == 'harness':
                raise
            ctx.log('FAULT', kind, col, r, type(ex_).__name__)
            after_error(sess, ENGINE_MARK in str(ex_) or type(ex_).__name__ == 'RuntimeError', what)
            return
        v = float(sim['log_like'].to_list()[r])
        if math.isnan(v):
            ctx.violate('I12.3s', f'simulate returned nan (no error) for row {r}, which reads the missing-data code '
                                  f'in column {col}')
        else:
            ctx.fail('I12.3r', f'{what}: simulate returned the number {v!r} for that row')
        ctx.log('FAULT', kind, col, r, 'simulate-nan')
