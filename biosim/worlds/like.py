"""W-like: the sample log likelihood as a weighted sum independent of threads, row order and
partition (C04), and the state an estimation leaves / what it reports (C07, profile 'est')."""

from __future__ import annotations

import math
import os
import random

from .. import specs, ref
from ..core import fhex

name = 'like'


def RAISE_ORACLE(profile):
    return 'I07.raise' if profile == 'est' else 'I04.raise'

ALGOS = ['simple_bounds', 'simple_bounds_newton', 'simple_bounds_BFGS', 'scipy', 'automatic',
         'TR-newton', 'TR-BFGS', 'LS-newton', 'LS-BFGS']
BOUNDED = {'simple_bounds', 'simple_bounds_newton', 'simple_bounds_BFGS', 'scipy', 'automatic'}


def make_config(rng, profile, tier):
    cfg = specs.gen_model_config(rng, k_max=4, fancy_names=False, allow_cliff=False, weight=True)
    cfg['names'] = rng.sample(['asc', 'b_time', 'b_cost', 'beta', 'BETA', 'b', 'b1', 'b10', 'b2', 'mu', 'a_b', 'C_z'], cfg['K'])
    cfg['N'] = rng.choice([1, 2, 3, 5, 7, 12, 20, 40]) if rng.random() < 0.6 else rng.randrange(1, 41)
    cfg['threads'] = rng.choice([1, 2, 3, 0])
    # (estimation profile: panel only with the logit family - the trajectory of the quadratic family, exp of a large negative
    # sum, underflows to 0 far from the optimum and the log likelihood is then -inf, which is no business of C07)
    cfg['panel'] = rng.random() < (0.15 if profile != 'est' else (0.12 if cfg['family'] == 'logit' else 0.0))
    # row labels of the tables handed to the library (buggify): positions, a permutation of them, with gaps, shifted
    cfg['index_kind'] = rng.choice(['range', 'range', 'keep', 'gaps', 'offset', 'dup'])
    if profile != 'est' and rng.random() < 0.3:
        # declared bounds that the evaluation points do not respect
        cfg['bounds'] = [rng.choice([None, [-0.05, 0.05], [None, 0.02], [-0.02, None]]) for _ in range(cfg['K'])]
        cfg['eval_outside_bounds'] = True
    if cfg['panel']:
        cfg['weight'] = None
        cfg['N'] = max(cfg['N'], 3)
    if profile == 'est':
        cfg['N'] = max(cfg['N'], 6)
        if cfg['panel']:
            # few rows per individual: the product over an individual's rows must not underflow at the far corners of the
            # box that a bounded algorithm may visit (exp(-745) is 0, and the log likelihood -inf)
            cfg['N'] = min(cfg['N'], 20)
        # the same parameter declared by two Beta objects (a helper called twice): merged by name everywhere
        cfg['dup_objects'] = rng.random() < 0.3
        cfg['inf_bounds'] = rng.random() < 0.3      # absent bounds written as infinite numbers instead of None
        cfg['weight'] = rng.choice([None, None, 'col']) if not cfg['panel'] else None
        cfg['bound_plan'] = [rng.choice(['none', 'none', 'wide', 'active_upper', 'active_lower', 'one_sided', 'zero'])
                             for _ in range(cfg['K'])]
        cfg['max_iterations'] = rng.choice([200, 200, 200, 2, 3])
    return cfg


def make_ops(rng, cfg, profile, tier):
    ops = []
    n = rng.randrange(4, 16)
    N = cfg['N']
    tchoices = list(range(1, N + 4)) + [0]
    if profile == 'est':
        for _ in range(rng.randrange(2, 7)):
            r = rng.random()
            if r < 0.55:
                ops.append({'op': 'ESTIMATE', 'a': [rng.choice(ALGOS), rng.choice([0, 0, 2, 3]) if cfg['K'] >= 2 else 0,
                                                    rng.random() < 0.4, rng.random() < 0.5, rng.choice(tchoices),
                                                    rng.choice([None, None, None, 1e-7, 1e-6, 1e-2, 10.0])]})
            elif r < 0.65:
                ops.append({'op': 'ESTIMATE_ALL', 'a': [rng.randrange(1 << 16)]})
            elif r < 0.72:
                ops.append({'op': 'QUICK', 'a': [rng.choice(ALGOS), rng.random() < 0.5]})
            elif r < 0.74:
                ops.append({'op': 'RECYCLE_FIXED', 'a': [rng.randrange(64), round(rng.uniform(-0.5, 0.5), 2)]})
            elif r < 0.76:
                ops.append({'op': 'RECYCLE_PREFIX', 'a': [rng.randrange(64), rng.randrange(1 << 16)]})
            elif r < 0.78:
                ops.append({'op': 'CHANGE_INIT_KEPT', 'a': [rng.randrange(64), rng.randrange(1 << 16)]})
            elif r < 0.79:
                ops.append({'op': rng.choice(['ESTIMATE_CATALOG', 'ESTIMATE_CATALOG', 'ESTIMATE_NAN_REGION']), 'a': [rng.randrange(6)]})
            elif r < 0.87:
                ops.append({'op': 'LLD', 'a': [rng.randrange(64), rng.randrange(1 << 16), rng.random() < 0.3, True, True]})
            elif r < 0.9:
                # the number of threads is changed on an object between two uses, and values are simulated with it
                ops.append({'op': 'SET_THREADS', 'a': [-1, rng.choice(tchoices)]})
                ops.append({'op': 'SIM', 'a': [-1, rng.randrange(1 << 16) % 5]})
            else:
                ops.append({'op': 'FRESH', 'a': [rng.choice(tchoices)]})
        return ops
    for _ in range(n):
        r = rng.random()
        if r < 0.2:
            ops.append({'op': 'MAKE', 'a': [rng.choice(tchoices), rng.randrange(1 << 16), rng.random() < 0.7]})
        elif r < 0.38:
            ops.append({'op': 'LL', 'a': [rng.randrange(64), rng.randrange(1 << 16) % 5, rng.random() < 0.3]})
        elif r < 0.56:
            ops.append({'op': 'LLD', 'a': [rng.randrange(64), rng.randrange(1 << 16) % 5, rng.random() < 0.3,
                                           rng.random() < 0.6, rng.random() < 0.6]})
        elif r < 0.66:
            ops.append({'op': 'SIM', 'a': [rng.randrange(64), rng.randrange(1 << 16) % 5]})
        elif r < 0.76:
            ops.append({'op': 'PARTS', 'a': [rng.randrange(2, 6), rng.randrange(1 << 16) % 5, rng.randrange(1 << 16),
                                             rng.choice(tchoices)]})
        elif r < 0.79:
            ops.append({'op': 'PER_OBS', 'a': [rng.randrange(1 << 16) % 5]})
        elif r < 0.81:
            ops.append({'op': 'SPLIT_PARTS', 'a': [rng.randrange(2, 6), rng.randrange(1 << 16) % 5, rng.random() < 0.3]})
        elif r < 0.817:
            ops.append({'op': rng.choice(['EXTRACT_PARTS', 'ROW_PARTS', 'FD_HESSIAN', 'REMOVE_REBUILD', 'REMOVE_REBUILD', 'MC_SUM', 'ZERO_PROB']),
                        'a': [rng.randrange(2, 5), rng.randrange(1 << 16) % 5]})
        elif r < 0.82:
            ops.append({'op': 'ALIAS', 'a': [rng.randrange(64), rng.randrange(1 << 16) % 5, rng.randrange(1 << 16) % 5]})
        elif r < 0.85:
            ops.append({'op': 'SET_THREADS', 'a': [rng.randrange(64), rng.choice(tchoices)]})
        elif r < 0.88:
            ops.append({'op': 'NEGLL', 'a': [rng.randrange(64), rng.randrange(1 << 16) % 5]})
        else:
            ops.append({'op': rng.choice(['H_NULL', 'H_EVALC', 'H_QUICK', 'H_CHANGE_INIT', 'H_ESTBOOT', 'H_ESTBOOT_FAIL']),
                        'a': [rng.randrange(64), rng.randrange(1 << 16)]})
    return ops


def died_is_outcome(spec, res):
    return False


def pinned_ops(spec):
    return set()


def simplifications(spec):
    cfg = spec['config']
    if cfg.get('weight'):
        yield dict(spec, config=dict(cfg, weight=None))


def nontrivial(spec, res):
    c = res.get('counters', {})
    if spec.get('profile') == 'est':
        return c.get('estimations', 0) >= 2
    return c.get('settings_compared', 0) >= 3


class Session:
    def __init__(self, ctx):
        from .. import env
        env.import_library()
        import numpy as np
        self.np = np
        self.ctx = ctx
        self.cfg = dict(ctx.config)
        self.est = ctx.profile == 'est'
        self.table = specs.make_table(self.cfg)
        self.N = len(self.table)
        self.names = sorted(self.cfg['names'])
        self.objects = []
        self.memo = {}
        self.settings = set()
        if self.est:
            self._resolve_bounds()
        self.make_object(self.cfg['threads'], None)

    # -- construction ------------------------------------------------------------
    def _params(self, threads, save=False):
        from biogeme.parameters import Parameters
        p = Parameters()
        p.set_value('save_iterations', save)
        p.set_value('generate_html', False)
        p.set_value('generate_pickle', False)
        p.set_value('number_of_threads', threads)
        p.set_value('max_iterations', self.cfg.get('max_iterations', 200) if getattr(self, 'bounds_resolved', False) else 200)
        return p

    def make_object(self, threads, permseed, cfg=None, table=None, dictform=True, save=False):
        import biogeme.biogeme as bio
        import biogeme.database as db
        cfg = cfg or self.cfg
        t = (self.table if table is None else table).copy()
        if permseed is not None:
            idx = list(range(len(t)))
            random.Random(permseed).shuffle(idx)
            t = t.iloc[idx]
            if self.cfg.get('index_kind') != 'keep':
                t = t.reset_index(drop=True)
            else:
                self.ctx.probe('row labels are a permutation of the positions')
        ik = self.cfg.get('index_kind')
        if ik == 'gaps':
            t.index = [3 * i + (i % 2) for i in range(len(t))]
        elif ik == 'offset':
            t.index = [i + 1000 for i in range(len(t))]
        elif ik == 'dup':
            t.index = [i // 2 for i in range(len(t))]     # two files joined with pandas.concat: labels repeat
        ll, w, betas = specs.build_formulas(cfg)
        if self.cfg.get('panel'):
            import biogeme.expressions as ex
            t = t.sort_values('grp', kind='stable').reset_index(drop=True)
            ll = ex.log(ex.PanelLikelihoodTrajectory(ex.exp(ll)))
        forms = {'log_like': ll}
        if w is not None:
            # the accepted aliases of the two keys, and both insertion orders (buggify)
            wkey = 'weights' if cfg['data_seed'] % 3 == 0 else 'weight'
            lkey = 'loglike' if cfg['data_seed'] % 5 == 0 else 'log_like'
            forms = {lkey: ll, wkey: w}
            if (threads or 0) % 2:
                forms = {wkey: w, lkey: ll}
        d = db.Database('d', t)
        if self.cfg.get('panel'):
            d.panel('grp')
            self.ctx.probe('panel data (sample size = individuals)')
            if (permseed is not None and permseed % 2) or (permseed is None and self.ctx.profile == 'est'
                                                         and self.cfg['data_seed'] % 2):
                # rows re-ordered after the data were declared panel (a second wave appended, a shuffle): the object
                # sorts them again
                idx2 = list(range(len(d.data)))
                random.Random((permseed if permseed is not None else self.cfg['data_seed']) + 1).shuffle(idx2)
                d.data = d.data.iloc[idx2]
                self.ctx.probe('panel rows re-ordered after panel()')
        b = bio.BIOGEME(d, forms if (dictform or w is not None) else ll, parameters=self._params(threads, save))
        b.modelName = 'm'
        rec = {'b': b, 'T': threads, 'perm': permseed, 'table': t, 'betas': betas, 'cfg': cfg}
        self.objects.append(rec)
        self.settings.add((threads, permseed))
        if threads > len(t):
            self.ctx.probe('T > N')
        if threads == 0:
            self.ctx.probe('T = 0')
        if len(t) == 1:
            self.ctx.probe('N = 1')
        if w is not None:
            self.ctx.probe('weight formula present')
        return rec

    def _resolve_bounds(self):
        """Places the planned bounds relative to the unconstrained optimum (found by the library on
        an unbounded twin and confirmed as a maximum by the reference function)."""
        cfg0 = dict(self.cfg, bounds=[None] * self.cfg['K'])
        self.cfg = cfg0
        rec = self.make_object(1, None, cfg=cfg0)
        self.objects.pop()
        rec['b'].biogeme_parameters.set_value('optimization_algorithm', 'simple_bounds')
        r = rec['b'].quick_estimate()
        xs = r.get_beta_values()
        self.xstar_unc = {n: float(xs[n]) for n in self.names}
        bounds, init = [], list(self.cfg['init'])
        self.active_planned = False
        for i, nm in enumerate(self.cfg['names']):
            plan = self.cfg['bound_plan'][i]
            x = self.xstar_unc[nm]
            gap = 0.2 * (1 + abs(x))
            bd = None
            if plan == 'wide':
                bd = [x - 10.0, x + 10.0]
            elif plan == 'active_upper':
                bd = [None, x - gap]
                self.active_planned = True
            elif plan == 'active_lower':
                bd = [x + gap, None]
                self.active_planned = True
            elif plan == 'one_sided':
                bd = [x - 5.0, None]
            elif plan == 'zero':
                # a bound of exactly 0, active at the optimum
                bd = [None, 0.0] if x > 0 else [0.0, None]
                self.active_planned = True
            if bd is not None:
                lo, hi = bd
                if lo is not None and init[i] < lo:
                    init[i] = lo + 0.05
                if hi is not None and init[i] > hi:
                    init[i] = hi - 0.05
            bounds.append(bd)
        self.cfg = dict(self.cfg, bounds=bounds, init=init)
        self.bounds_resolved = True
        if self.cfg.get('max_iterations', 200) < 10:
            self.ctx.probe('iteration cap of 2-3 (non-converged estimations)')
        if self.active_planned:
            self.ctx.probe('bound active at the optimum (planned)')

    # -- reference ------------------------------------------------------------------
    def point(self, seed):
        rng = random.Random(seed)
        x = {}
        for i, nm in enumerate(self.cfg['names']):
            v = self.cfg['init'][i] + rng.uniform(-1, 1)
            if isinstance(seed, int) and (seed + i) % 7 == 3:
                v = 0.0      # the value 0 is a value like any other (also when the starting value is not 0)
            bd = self.cfg['bounds'][i] if self.cfg.get('bounds') else None
            if bd and self.cfg.get('eval_outside_bounds'):
                bd = None    # evaluation profile: a likelihood is evaluated where it is asked, inside the bounds or not
            if bd:
                if bd[0] is not None:
                    v = max(v, bd[0])
                if bd[1] is not None:
                    v = min(v, bd[1])
            x[nm] = v
        return x

    def full(self, x):
        d = dict(x)
        for nm, val in self.cfg['fixed']:
            d[nm] = val
        return d

    def ref_ll(self, x, table=None):
        t = self.table if table is None else table
        rows = specs.ref_loglike(self.cfg, t, self.full(x), per_row=True)
        w = specs.ref_weights(self.cfg, t)
        return sum(a * b for a, b in zip(w, rows)), rows, w

    def vec(self, x):
        return self.np.array([x[n] for n in self.names], dtype=float)

    def _cmp(self, what, got, want, rel=1e-9, oracle='I04.sum'):
        np = self.np
        got = np.asarray(got, dtype=float)
        want = np.asarray(want, dtype=float)
        if got.shape != want.shape:
            self.ctx.fail(oracle, f'{what}: shape {got.shape} vs {want.shape}')
        scale = max(1.0, float(np.max(np.abs(want))) if want.size else 1.0)
        if not np.all(np.abs(got - want) <= rel * scale + 1e-11):
            i = int(np.argmax(np.abs(got - want)))
            self.ctx.fail(oracle, f'{what}: {got.flat[i]!r} vs {want.flat[i]!r} (max abs diff '
                                  f'{float(np.max(np.abs(got - want)))!r})')

    def _memo(self, key, what, val, oracle='I04.schedule'):
        if key in self.memo:
            self._cmp(f'{what} differs between settings {self.memo[key][1]} and {what}', val, self.memo[key][0],
                      oracle=oracle)
            self.ctx.count('settings_compared')
        else:
            self.memo[key] = (self.np.array(val, dtype=float, copy=True), what)

    # -- evaluation helpers -------------------------------------------------------------
    def size(self, table):
        return len(set(table['grp'].to_list())) if self.cfg.get('panel') else len(table)

    def eval_ll(self, rec, x, scaled):
        b = rec['b']
        v = float(b.calculate_likelihood(self.vec(x), scaled=scaled))
        want, _, _ = self.ref_ll(x, rec['table'])
        n = self.size(rec['table'])
        self._cmp(f'log likelihood (T={rec["T"]}, scaled={scaled})', v, want / n if scaled else want)
        return v

    def eval_lld(self, rec, x, scaled, hessian, bhhh, xseed):
        b = rec['b']
        out = b.calculate_likelihood_and_derivatives(self.vec(x), scaled=scaled, hessian=hessian, bhhh=bhhh)
        n = self.size(rec['table'])
        want, _, _ = self.ref_ll(x, rec['table'])
        f = float(out.function) * (n if scaled else 1)
        self._cmp(f'log likelihood with derivatives (T={rec["T"]}, scaled={scaled})', f, want)
        g = self.np.asarray(out.gradient, dtype=float) * (n if scaled else 1)
        label = f'T={rec["T"]},perm={rec["perm"]},scaled={scaled}'
        key = ('x', xseed) if rec.get('whole', True) else None
        if key:
            self._memo(key + ('g',), f'gradient[{label}]', g)
        if hessian:
            h = self.np.asarray(out.hessian, dtype=float) * (n if scaled else 1)
            if not self.np.allclose(h, h.T, rtol=1e-9, atol=1e-11):
                self.ctx.fail('I04.sym', f'Hessian not symmetric ({label})')
            if key:
                self._memo(key + ('h',), f'hessian[{label}]', h)
        if bhhh:
            bh = self.np.asarray(out.bhhh, dtype=float) * (n if scaled else 1)
            if key:
                self._memo(key + ('b',), f'bhhh[{label}]', bh)
        return out

    def per_obs(self, x):
        """Per-observation value/gradient/Hessian through the expression API on separate objects."""
        import biogeme.database as db
        ll, w, _ = specs.build_formulas(self.cfg)
        d = db.Database('po', self.table.copy())
        out = ll.get_value_and_derivatives(betas=self.full(x), database=d, aggregation=False, prepare_ids=True,
                                           gradient=True, hessian=True, bhhh=True)
        return out

    # -- operations ----------------------------------------------------------------------
    def apply(self, i, op):
        ctx = self.ctx
        kind, a = op['op'], op['a']
        ctx.count('op:' + kind)
        np = self.np
        self._check_kept()
        if self.cfg.get('panel') and kind in ('PARTS', 'PER_OBS', 'SIM', 'SPLIT_PARTS', 'EXTRACT_PARTS', 'ROW_PARTS', 'REMOVE_REBUILD'):
            # cross-sectional comparisons: replaced by a plain evaluation on panel data
            kind, a = 'LLD', [a[0] if kind != 'PARTS' else 0, (a[1] if len(a) > 1 else a[0]) % 5, False, True, True]
        if kind == 'MAKE':
            rec = self.make_object(a[0], a[1] if a[2] else None)
            ctx.log(kind, a[0], a[1] if a[2] else None)
        elif kind == 'FRESH':
            rec = self.make_object(a[0], None)
            ctx.log(kind, a[0])
        elif kind == 'LL':
            rec = self.objects[a[0] % len(self.objects)]
            x = self.point(a[1])
            v = self.eval_ll(rec, x, a[2])
            if rec.get('history'):
                ctx.probe('evaluation after a history operation')
            ctx.log(kind, rec['T'], fhex(v))
        elif kind == 'LLD':
            rec = self.objects[a[0] % len(self.objects)]
            x = self.point(a[1])
            out = self.eval_lld(rec, x, a[2], a[3], a[4], a[1])
            if rec.get('history'):
                ctx.probe('evaluation after a history operation')
            ctx.log(kind, rec['T'], fhex(out.function))
        elif kind == 'SIM':
            rec = self.objects[a[0] % len(self.objects)]
            x = self.point(a[1])
            # the values are given by name: the order in which the dictionary lists them is immaterial
            order_ = list(self.names) if a[1] % 2 else list(self.names)[::-1]
            sim = rec['b'].simulate({n: x[n] for n in order_})
            _, rows, w = self.ref_ll(x, rec['table'])
            lcol = 'log_like' if 'log_like' in sim.columns else 'loglike'
            wcol = 'weight' if 'weight' in sim.columns else ('weights' if 'weights' in sim.columns else None)
            got = [float(v) for v in sim[lcol].to_list()]
            self._cmp('per-observation simulated values', got, rows, oracle='I04.sim')
            gw = [float(v) for v in sim[wcol].to_list()] if wcol else [1.0] * len(got)
            if wcol:
                self._cmp('per-observation simulated weights', gw, w, oracle='I04.sim')
            ll = float(rec['b'].calculate_likelihood(self.vec(x), scaled=False))
            self._cmp('log likelihood vs sum of weight x simulated value', ll, sum(p * q for p, q in zip(gw, got)))
            ctx.log(kind, rec['T'], fhex(ll))
        elif kind == 'PARTS':
            P, xs, pseed, T = a
            x = self.point(xs)
            idx = list(range(self.N))
            random.Random(pseed).shuffle(idx)
            P = min(P, self.N)
            parts = [idx[j::P] for j in range(P)]
            tot_f, tot_g, tot_h, tot_b = 0.0, 0, 0, 0
            for part in parts:
                t = self.table.iloc[sorted(part)].reset_index(drop=True)
                rec = self.make_object(T, None, table=t)
                self.objects.pop()
                out = rec['b'].calculate_likelihood_and_derivatives(self.vec(x), scaled=False, hessian=True, bhhh=True)
                tot_f += float(out.function)
                tot_g = tot_g + np.asarray(out.gradient, dtype=float)
                tot_h = tot_h + np.asarray(out.hessian, dtype=float)
                tot_b = tot_b + np.asarray(out.bhhh, dtype=float)
            want, _, _ = self.ref_ll(x)
            self._cmp(f'sum of the log likelihoods of {P} parts', tot_f, want, oracle='I04.parts')
            self._memo(('x', xs, 'g'), f'gradient[sum of {P} parts]', tot_g, oracle='I04.parts')
            self._memo(('x', xs, 'h'), f'hessian[sum of {P} parts]', tot_h, oracle='I04.parts')
            self._memo(('x', xs, 'b'), f'bhhh[sum of {P} parts]', tot_b, oracle='I04.parts')
            ctx.log(kind, P, fhex(tot_f))
        elif kind == 'EXTRACT_PARTS':
            # every P-th row: the parts are taken with Database.extract_rows(range(k, N, P)); they partition the rows
            import biogeme.database as db
            P, xs = a
            P = min(P, self.N)
            x = self.point(xs)
            d0 = db.Database('whole', self.table.copy())
            tot, nrows = 0.0, 0
            for k_ in range(P):
                part = d0.extract_rows(range(k_, self.N, P))
                rec = self.make_object(1, None, table=part.data.reset_index(drop=True))
                self.objects.pop()
                tot += float(rec['b'].calculate_likelihood(self.vec(x), scaled=False))
                nrows += len(part.data)
            want, _, _ = self.ref_ll(x)
            if nrows != self.N:
                ctx.fail('I04.parts', f'the {P} stepped extracts hold {nrows} rows, the sample has {self.N}')
            self._cmp(f'sum of the log likelihoods of the {P} stepped extracts', tot, want, oracle='I04.parts')
            ctx.log(kind, P, fhex(tot))
        elif kind == 'ROW_PARTS':
            # one Database per row (mdcev_row_split), all rows or a range of positions: the parts are exactly those rows
            import biogeme.database as db
            P, xs = a
            x = self.point(xs)
            t0 = self.table.copy()
            ik = self.cfg.get('index_kind')
            if ik == 'dup':
                t0.index = [i // 2 for i in range(len(t0))]
            elif ik == 'gaps':
                t0.index = [3 * i + (i % 2) for i in range(len(t0))]
            elif ik == 'keep':
                t0.index = list(range(len(t0)))[::-1]
            d0 = db.Database('whole', t0)
            positions = None if P % 2 else list(range(P % self.N, self.N, 2))
            parts = d0.mdcev_row_split(positions)
            want_pos = list(range(self.N)) if positions is None else positions
            if len(parts) != len(want_pos):
                ctx.fail('I04.parts', f'mdcev_row_split({positions}) returned {len(parts)} parts for {len(want_pos)} rows')
            _, rows, w = self.ref_ll(x)
            tot, want = 0.0, 0.0
            for part, pos in zip(parts, want_pos):
                if len(part.data) != 1:
                    ctx.fail('I04.parts', f'the part for row position {pos} holds {len(part.data)} rows '
                                          f'(labels {list(t0.index)})')
                rec = self.make_object(1, None, table=part.data.reset_index(drop=True))
                self.objects.pop()
                tot += float(rec['b'].calculate_likelihood(self.vec(x), scaled=False))
                want += w[pos] * rows[pos]
            self._cmp(f'sum of the log likelihoods of the one-row parts {positions}', tot, want, oracle='I04.parts')
            ctx.log(kind, P, fhex(tot))
        elif kind == 'REMOVE_REBUILD':
            # an object is built on a Database, rows are then removed from that Database, and a NEW object is built on it:
            # the new object sees the remaining rows only (sample size, scaled value, simulation)
            import biogeme.biogeme as bio
            import biogeme.database as db
            import biogeme.expressions as ex
            x = self.point(a[1])
            t = self.table.copy()
            thr = sorted(float(v) for v in t['x0'])[len(t) // 2]
            keep_t = t[t['x0'] <= thr].reset_index(drop=True)
            if len(keep_t) == len(t) or len(keep_t) == 0:
                ctx.log(kind, 'skip')
            else:
                if a[0] % 3 == 0:
                    t.index = [i // 2 for i in range(len(t))]       # two files joined with pandas.concat: labels repeat
                    ctx.probe('rows removed from a table whose row labels repeat')
                elif a[0] % 3 == 2:
                    t.index = [3 * i + (i % 2) for i in range(len(t))]
                d = db.Database('rr', t)
                ll1, w1, _ = specs.build_formulas(self.cfg)
                f1 = {'log_like': ll1} if w1 is None else {'log_like': ll1, 'weight': w1}
                b1 = bio.BIOGEME(d, f1, parameters=self._params(1))
                b1.calculate_likelihood(self.vec(x), scaled=True)
                d.remove(ex.Variable('x0') > thr)
                ll2, w2, _ = specs.build_formulas(self.cfg)
                f2 = {'log_like': ll2} if w2 is None else {'log_like': ll2, 'weight': w2}
                b2 = bio.BIOGEME(d, f2, parameters=self._params(a[0]))
                want, rows, w = self.ref_ll(x, keep_t)
                self._cmp('log likelihood of an object built after rows were removed from the Database',
                          float(b2.calculate_likelihood(self.vec(x), scaled=False)), want, oracle='I04.sum')
                self._cmp('scaled log likelihood of an object built after rows were removed from the Database',
                          float(b2.calculate_likelihood(self.vec(x), scaled=True)), want / len(keep_t), oracle='I04.scaled')
                sim = b2.simulate({n: x[n] for n in self.names})
                self._cmp('per-observation simulated values after rows were removed', [float(v) for v in sim['log_like'].to_list()],
                          rows, oracle='I04.sim')
                ctx.probe('object built after rows were removed from a Database that already served an object')
                ctx.log(kind, len(keep_t))
        elif kind == 'ZERO_PROB':
            # a point at which some observations have probability exactly zero: the log likelihood is what the sum of the
            # per-observation values is (minus infinity), scaled or not; at an ordinary point it is the finite sum
            import biogeme.biogeme as bio
            import biogeme.database as db
            import biogeme.expressions as ex
            zb = ex.Beta('zp_b', 0.5, None, None, 0)
            zx = ex.Variable('x0')
            t = self.table.copy()
            bz = bio.BIOGEME(db.Database('zp', t), {'log_like': ex.log(ex.exp(-zb * zx * zx))}, parameters=self._params(a[0]))
            bz.modelName = 'zp'
            for v_ in ((0.5, 2000.0) if a[1] % 2 else (2000.0, 0.5)):
                rows_ = [(-v_ * float(z_) ** 2) if v_ * float(z_) ** 2 < 700 else -math.inf for z_ in t['x0']]
                sim_ = [float(z_) for z_ in bz.simulate({'zp_b': v_})['log_like']]
                if any(math.isinf(w_) != math.isinf(g_) or (not math.isinf(w_) and abs(w_ - g_) > 1e-9 * max(1.0, abs(w_)))
                       for w_, g_ in zip(rows_, sim_)):
                    if all(v_ * float(z_) ** 2 < 700 or v_ * float(z_) ** 2 > 760 for z_ in t['x0']):
                        ctx.fail('I04.sim', f'per-observation values at zp_b={v_}: {sim_}, expected {rows_}')
                    continue
                tot_ = sum(sim_)
                for sc_ in (False, True):
                    got_ = float(bz.calculate_likelihood([v_], scaled=sc_))
                    want_ = tot_ / len(t) if (sc_ and not math.isinf(tot_)) else tot_
                    if (math.isinf(want_) and got_ != want_) or (not math.isinf(want_) and abs(got_ - want_) > 1e-9 * max(1.0, abs(want_))):
                        ctx.fail('I04.sum', f'log likelihood (scaled={sc_}) at zp_b={v_}: {got_!r}, the sum of the per-observation '
                                            f'values is {want_!r}')
                if math.isinf(tot_):
                    ctx.probe('log likelihood at a point where an observation has probability zero')
            ctx.log(kind, a[0])
        elif kind == 'MC_SUM':
            # a simulated (Monte-Carlo) likelihood: the log likelihood of the object is the weighted sum of what its
            # simulation reports per observation, before and after the first simulation (one set of draws per object)
            import biogeme.biogeme as bio
            import biogeme.database as db
            import biogeme.expressions as ex
            T, xs = a
            mb = ex.Beta('mc_b', 0.3, None, None, 0)
            ms = ex.Beta('mc_s', 0.5, None, None, 0)
            dev = mb + ms * ex.bioDraws('mc_eta', 'NORMAL') - ex.Variable('x0')
            f = ex.log(ex.MonteCarlo(ex.exp(-(dev * dev))))
            p = self._params(T)
            p.set_value('number_of_draws', 5)
            p.set_value('seed', 1 + xs)
            forms = {'log_like': f}
            wts = [1.0] * len(self.table)
            if self.cfg.get('weight') and not self.cfg.get('panel'):
                forms['weight'] = ex.Variable('w')
                wts = [float(v) for v in self.table['w'].to_list()]
            B = bio.BIOGEME(db.Database('mc', self.table.copy()), forms, parameters=p)
            pt = [0.3 + 0.1 * xs, 0.5]
            l1 = float(B.calculate_likelihood(pt, scaled=False))
            sim = B.simulate({'mc_b': pt[0], 'mc_s': pt[1]})
            tot = sum(w_ * float(v_) for w_, v_ in zip(wts, sim['log_like'].to_list()))
            l2 = float(B.calculate_likelihood(pt, scaled=False))
            self._cmp('simulated likelihood: log likelihood before the first simulation vs the weighted sum of the simulated values',
                      l1, tot, oracle='I04.sim')
            self._cmp('simulated likelihood: log likelihood after the simulation vs before', l2, l1, oracle='I04.sim')
            ctx.probe('Monte-Carlo likelihood compared with its simulation')
            ctx.log(kind, T, fhex(l1))
        elif kind == 'FD_HESSIAN':
            # the finite-difference Hessian of the (unscaled) log likelihood approximates the analytical one
            rec = self.objects[a[0] % len(self.objects)] if self.objects else self.make_object(1, None)
            x = self.point(a[1])
            b = rec['b']
            fd = np.asarray(b.likelihood_finite_difference_hessian(self.vec(x)), dtype=float)
            an = np.asarray(b.calculate_likelihood_and_derivatives(self.vec(x), scaled=False, hessian=True,
                                                                   bhhh=False).hessian, dtype=float)
            scale = max(1.0, float(np.max(np.abs(an))))
            if fd.shape != an.shape or float(np.max(np.abs(fd - an))) > 1e-3 * scale:
                ctx.fail('I04.deriv', f'finite-difference Hessian of the log likelihood {fd.tolist()} vs the analytical one '
                                      f'{an.tolist()}')
            ctx.log(kind, fhex(float(an[0][0])))
        elif kind == 'ALIAS':
            # results returned for one point stay what they were after the object has computed another point
            rec = self.objects[a[0] % len(self.objects)]
            b = rec['b']
            x1, x2 = self.point(a[1]), self.point(a[2] + 5)
            o1 = b.calculate_likelihood_and_derivatives(self.vec(x1), scaled=False, hessian=True, bhhh=True)
            keep = [np.array(v, dtype=float, copy=True) for v in (o1.gradient, o1.hessian, o1.bhhh)]
            f1 = float(o1.function)
            b.calculate_likelihood_and_derivatives(self.vec(x2), scaled=False, hessian=True, bhhh=True)
            for nm_, before, after in zip(('gradient', 'Hessian', 'BHHH'), keep, (o1.gradient, o1.hessian, o1.bhhh)):
                if not np.array_equal(before, np.asarray(after, dtype=float)):
                    ctx.fail('I04.alias', f'the {nm_} returned for one point changed when the same object computed another point')
            if float(o1.function) != f1:
                ctx.fail('I04.alias', 'the value returned for one point changed when the same object computed another point')
            ctx.log(kind, rec['T'])
        elif kind == 'SPLIT_PARTS':
            # the parts come from the library's own split(): the validation parts partition the rows, so their
            # log likelihoods add up to the log likelihood of the whole sample
            import biogeme.database as db
            k, xs, use_groups = a
            x = self.point(xs)
            t0 = self.table.copy()
            ik_ = self.cfg.get('index_kind')
            if ik_ == 'dup':
                t0.index = [i_ // 2 for i_ in range(len(t0))]      # row labels that repeat
            elif ik_ == 'gaps':
                t0.index = [3 * i_ + (i_ % 2) for i_ in range(len(t0))]
            d0 = db.Database('whole', t0)
            folds = d0.split(k, groups='grp' if use_groups else None)
            tot = 0.0
            nrows = 0
            for f_ in folds:
                # each estimation part is the rest of the table
                if len(f_.estimation) + len(f_.validation) != self.N:
                    ctx.fail('I04.parts', f'split({k}): an estimation part of {len(f_.estimation)} rows and its validation part of '
                                          f'{len(f_.validation)} rows do not make the {self.N} rows of the table '
                                          f'(row labels {list(t0.index)[:8]}...)')
                if len(f_.validation) == 0:
                    continue
                rec = self.make_object(1, None, table=f_.validation.reset_index(drop=True))
                self.objects.pop()
                tot += float(rec['b'].calculate_likelihood(self.vec(x), scaled=False))
                nrows += len(f_.validation)
            want, _, _ = self.ref_ll(x)
            if nrows != self.N:
                ctx.fail('I04.parts', f'the validation parts of split({k}) hold {nrows} rows, the sample has {self.N}')
            self._cmp(f'sum of the log likelihoods of the {k} validation parts of split()', tot, want, oracle='I04.parts')
            ctx.log(kind, k, fhex(tot))
        elif kind == 'PER_OBS':
            x = self.point(a[0])
            out = self.per_obs(x)
            _, rows, w = self.ref_ll(x)
            self._cmp('per-observation values (expression API)', np.asarray(out.functions, dtype=float), rows,
                      oracle='I04.sim')
            wv = np.array(w)
            g = (np.asarray(out.gradients, dtype=float) * wv[:, None]).sum(axis=0)
            h = (np.asarray(out.hessians, dtype=float) * wv[:, None, None]).sum(axis=0)
            gi = np.asarray(out.gradients, dtype=float)
            bh = sum(wv[r] * np.outer(gi[r], gi[r]) for r in range(len(wv)))
            self._memo(('x', a[0], 'g'), 'gradient[sum of weighted per-observation gradients]', g, oracle='I04.agg')
            self._memo(('x', a[0], 'h'), 'hessian[sum of weighted per-observation Hessians]', h, oracle='I04.agg')
            self._memo(('x', a[0], 'b'), 'bhhh[sum of weighted outer products]', bh, oracle='I04.agg')
            # the same per-observation results reported by name: entry [name][name2] of observation r is entry [i][j]
            import biogeme.database as db_
            lln, _, _ = specs.build_formulas(self.cfg)
            named = lln.get_value_and_derivatives(betas=self.full(x), database=db_.Database('pon', self.table.copy()),
                                                  aggregation=False, prepare_ids=True, gradient=True, hessian=True, bhhh=True,
                                                  named_results=True)
            nms = list(self.names)
            for what_, plain_, byname_ in (('Hessian', out.hessians, named.hessians), ('BHHH', out.bhhhs, named.bhhhs)):
                for r_ in range(len(wv)):
                    for i_, n1_ in enumerate(nms):
                        for j_, n2_ in enumerate(nms):
                            v1_, v2_ = float(np.asarray(plain_[r_])[i_][j_]), float(byname_[r_][n1_][n2_])
                            if not (v1_ == v2_ or abs(v1_ - v2_) <= 1e-12 * max(1.0, abs(v1_))):
                                ctx.fail('I04.agg', f'per-observation {what_} reported by name: observation {r_} [{n1_}][{n2_}] = '
                                                    f'{v2_!r}, the unnamed result holds {v1_!r}')
            # the same expression on the same Database object after one column was scaled in place
            import biogeme.database as db
            ll2, w2, _ = specs.build_formulas(self.cfg)
            d2 = db.Database('po2', self.table.copy())
            v_before = ll2.get_value_c(database=d2, betas=self.full(x), aggregation=False, prepare_ids=True)
            self._cmp('per-observation values before scaling', np.asarray(v_before, dtype=float), rows, oracle='I04.sim')
            d2.scale_column('x0', 2.0)
            t2 = self.table.copy()
            t2['x0'] = t2['x0'] * 2.0
            rows2 = specs.ref_loglike(self.cfg, t2, self.full(x), per_row=True)
            v_after = ll2.get_value_c(database=d2, betas=self.full(x), aggregation=False, prepare_ids=True)
            self._cmp('per-observation values after a column was scaled in place', np.asarray(v_after, dtype=float), rows2,
                      oracle='I04.sim')
            ctx.log(kind, a[0])
        elif kind == 'NEGLL':
            # the function handed to the optimisers: minus the likelihood, minus its derivatives
            from biogeme.negative_likelihood import NegativeLikelihood
            rec = self.objects[a[0] % len(self.objects)]
            b = rec['b']
            x = self.point(a[1])
            nl = NegativeLikelihood(dimension=len(self.names), like=b.calculate_likelihood,
                                    like_derivatives=b.calculate_likelihood_and_derivatives,
                                    parameters={'tolerance': 1e-6, 'steptol': 1e-6})
            nl.set_variables(self.vec(x))
            want, _, _ = self.ref_ll(x, rec['table'])
            self._cmp('function handed to the optimiser vs minus the log likelihood', nl.f(), -want, oracle='I04.neg')
            fg = nl.f_g()
            fgh = nl.f_g_h()
            out = b.calculate_likelihood_and_derivatives(self.vec(x), scaled=False, hessian=True, bhhh=False)
            self._cmp('f_g: value', fg.function, -want, oracle='I04.neg')
            self._cmp('f_g: gradient vs minus the gradient of the likelihood', fg.gradient, -np.asarray(out.gradient), oracle='I04.neg')
            self._cmp('f_g_h: gradient', fgh.gradient, -np.asarray(out.gradient), oracle='I04.neg')
            self._cmp('f_g_h: Hessian vs minus the Hessian of the likelihood', fgh.hessian, -np.asarray(out.hessian), oracle='I04.neg')
            ctx.log(kind, rec['T'])
        elif kind == 'SET_THREADS':
            rec = self.objects[a[0] % len(self.objects)]
            rec['b'].number_of_threads = a[1]
            rec['T'] = f'{rec["T"]}->{a[1]}'
            ctx.log(kind, a[1])
        elif kind.startswith('H_'):
            rec = self.objects[a[0] % len(self.objects)]
            b = rec['b']
            rec['history'] = True
            if kind == 'H_NULL':
                J = max(2, self.cfg['J'])
                v = b.calculate_null_loglikelihood({k: 1 for k in range(J)})
                self._cmp('null log likelihood', v, -len(rec['table']) * math.log(J), oracle='I04.null')
            elif kind == 'H_EVALC':
                import biogeme.database as db
                from biogeme.expressions import Variable, Beta
                e = Variable('x0') * 2 + Beta('unrelated', 0.5, None, None, 0)
                v = e.get_value_c(database=db.Database('u', rec['table'].copy()), aggregation=True, prepare_ids=True)
                self._cmp('unrelated evaluation', v, sum(2 * float(z) + 0.5 for z in rec['table']['x0']), oracle='I04.null')
            elif kind == 'H_QUICK':
                # a full quick estimation while iterations are saved, then one that is stopped early from a poor start on
                # the same object: what it reports is the likelihood at the estimates IT returns
                b.biogeme_parameters.set_value('optimization_algorithm', 'simple_bounds')
                b.biogeme_parameters.set_value('save_iterations', True)
                b.quick_estimate()
                b.change_init_values({n_: 1.5 + 0.25 * i_ for i_, n_ in enumerate(self.names)})
                b.biogeme_parameters.set_value('max_iterations', 1)
                r_ = b.quick_estimate()
                b.biogeme_parameters.set_value('max_iterations', 200)
                b.biogeme_parameters.set_value('save_iterations', False)
                est_ = {n_: float(v_) for n_, v_ in r_.get_beta_values().items()}
                want_, _, _ = self.ref_ll({n_: est_[n_] for n_ in self.names}, rec['table'])
                self._cmp('quick_estimate stopped early on an object that had found a better point before: reported log likelihood '
                          'vs the likelihood at the returned estimates', float(r_.data.logLike), want_, rel=1e-7, oracle='I04.sum')
                for f_ in ('__m.iter',):
                    if os.path.exists(f_):
                        os.remove(f_)
            elif kind == 'H_CHANGE_INIT':
                # the log likelihood "at the starting values" follows the starting values
                b.calculate_init_likelihood()
                p_ = self.point(a[1])
                b.change_init_values(p_)
                want_, _, _ = self.ref_ll(p_, rec['table'])
                self._cmp('initial log likelihood after change_init_values on an object that computed it before',
                          float(b.calculate_init_likelihood()), want_, oracle='I04.init')
                if a[1] % 2:
                    # ... and does not follow the points at which derivatives are evaluated while iterations are saved
                    b.biogeme_parameters.set_value('save_iterations', True)
                    for k_ in (1, 2):
                        b.calculate_likelihood_and_derivatives(self.vec(self.point(a[1] + k_)), scaled=False, hessian=False, bhhh=False)
                    b.biogeme_parameters.set_value('save_iterations', False)
                    self._cmp('initial log likelihood after derivatives were evaluated elsewhere while iterations are saved',
                              float(b.calculate_init_likelihood()), want_, oracle='I04.init')
                    for f_ in ('__m.iter',):
                        if os.path.exists(f_):
                            os.remove(f_)
                    ctx.probe('initial log likelihood asked again after evaluations with saved iterations')
            elif kind == 'H_ESTBOOT_FAIL':
                if self.cfg['K'] >= 2:
                    # fault injection: the optimiser fails inside the bootstrap loop (k-th call); the caller
                    # catches the error and goes on using the object
                    import biogeme.optimization as opt
                    calls = {'n': 0}
                    real = opt.algorithms['simple_bounds']
                    fail_at = 2 + a[1] % 2

                    def flaky(**kw):
                        calls['n'] += 1
                        if calls['n'] == fail_at:
                            raise RuntimeError('injected optimiser failure')
                        return real(**kw)
                    opt.algorithms['flaky'] = flaky
                    b.biogeme_parameters.set_value('optimization_algorithm', 'flaky')
                    b.biogeme_parameters.set_value('bootstrap_samples', 3)
                    try:
                        b.estimate(run_bootstrap=True)
                    except RuntimeError as e:
                        if 'injected' not in str(e):
                            raise
                        ctx.count('fault:optimiser-failure-in-bootstrap')
                    finally:
                        opt.algorithms.pop('flaky', None)
                        b.biogeme_parameters.set_value('optimization_algorithm', 'simple_bounds')
            elif kind == 'H_ESTBOOT':
                if self.cfg['K'] >= 2:
                    b.biogeme_parameters.set_value('optimization_algorithm', 'simple_bounds')
                    b.biogeme_parameters.set_value('bootstrap_samples', 2)
                    b.estimate(run_bootstrap=True)
                    ctx.probe('bootstrap estimation in the history')
            x = self.point(a[1] % 5)
            self.eval_ll(rec, x, False)
            self.eval_lld(rec, x, False, True, True, a[1] % 5)
            ctx.log(kind)
        elif kind == 'ESTIMATE':
            self.estimate(*a)
        elif kind == 'QUICK':
            rec = self.make_object(self.cfg['threads'], None) if a[1] else self.objects[-1]
            b = rec['b']
            b.biogeme_parameters.set_value('optimization_algorithm', a[0])
            if a[0] not in BOUNDED and any(self.cfg.get('bounds') or []):
                self.infeasible_start_possible = True
            r = b.quick_estimate()
            est = r.get_beta_values()
            want, _, _ = self.ref_ll({n: float(est[n]) for n in self.names}, rec['table'])
            self._cmp('quick_estimate: reported final log likelihood vs the likelihood at the returned estimates',
                      float(r.data.logLike), want, oracle='I07.recompute')
            self._bounds_ok(a[0], est, 'quick_estimate')
            ctx.count('estimations')
            ctx.log(kind, a[0], fhex(r.data.logLike))
        elif kind == 'ESTIMATE_ALL':
            self.estimate_all()
        elif kind == 'RECYCLE_FIXED':
            # results saved for a model, then the model is re-specified with one parameter fixed and the saved results
            # are recycled: the fixed parameter keeps the value it was fixed to
            if self.cfg['K'] < 2:
                ctx.log(kind, 'skip')
            else:
                # ... or (buggify) the first estimation leaves its saved iterations behind and the re-specified model is
                # estimated in the same directory while iterations are saved
                via_iter = bool((a[0] // self.cfg['K']) % 2)
                rec = self.make_object(1, None, save=via_iter)
                self.objects.pop()
                b = rec['b']
                b.modelName = 'recyc'
                b.biogeme_parameters.set_value('generate_pickle', not via_iter)
                b.biogeme_parameters.set_value('optimization_algorithm', 'simple_bounds')
                b.estimate()
                nm_ = self.cfg['names'][a[0] % self.cfg['K']]
                rec2 = self.make_object(1, None)
                self.objects.pop()
                for f_ in rec2['b'].formulas.values():
                    f_.fix_betas({nm_: a[1]})
                import biogeme.biogeme as bio
                b2 = bio.BIOGEME(rec2['b'].database, rec2['b'].formulas, parameters=self._params(1, via_iter))
                b2.modelName = 'recyc'
                b2.biogeme_parameters.set_value('optimization_algorithm', 'simple_bounds')
                r2 = b2.estimate(recycle=not via_iter)
                beta_obj = rec2['betas'][nm_]
                if beta_obj.initValue != a[1] or beta_obj.status == 0:
                    ctx.fail('I07.writeback', f'{"estimation restarted from saved iterations" if via_iter else "recycled estimation"} '
                                              f'changed the fixed parameter {nm_} from {a[1]!r} to '
                                              f'{beta_obj.initValue!r} (status {beta_obj.status})')
                if via_iter:
                    est2 = {n: float(v) for n, v in r2.get_beta_values().items()}
                    if nm_ in est2:
                        ctx.fail('I07.writeback', f'the fixed parameter {nm_} is listed among the estimates')
                    x2 = {n: (a[1] if n == nm_ else est2[n]) for n in self.names}
                    want2, _, _ = self.ref_ll(x2, rec2['table'])
                    self._cmp(f'estimation with {nm_} fixed, restarted from the iterations saved when it was free: reported log '
                              'likelihood vs the likelihood at the returned estimates and the fixed value',
                              float(r2.data.logLike), want2, rel=1e-7, oracle='I07.recompute')
                    ctx.probe('restricted model restarted from the saved iterations of the full one')
                    for f_ in ('__recyc.iter',):
                        if os.path.exists(f_):
                            os.remove(f_)
                ctx.log(kind, nm_, a[1])
        elif kind == 'RECYCLE_PREFIX':
            # two models saved in one directory, the name of one being the beginning of the name of the other: recycling
            # the results of the first one returns ITS results (the reported log likelihood is the likelihood of its own
            # formula at the returned estimates)
            if self.N < 4:
                ctx.log(kind, 'skip')
            else:
                half = self.table.iloc[: self.N // 2].reset_index(drop=True)
                rec_o = self.make_object(1, None, table=half)
                self.objects.pop()
                rec_m = self.make_object(1, None)
                self.objects.pop()
                for rec_, nm_ in ((rec_m, 'rp'), (rec_o, 'rp_bis'), (rec_o, 'rp2')):
                    b_ = rec_['b']
                    b_.modelName = nm_
                    b_.biogeme_parameters.set_value('generate_pickle', True)
                    b_.biogeme_parameters.set_value('optimization_algorithm', 'simple_bounds')
                    b_.estimate()
                rec_m['b'].modelName = 'rp'
                r_ = rec_m['b'].estimate(recycle=True)
                est_ = {n: float(v) for n, v in r_.get_beta_values().items()}
                want_, _, _ = self.ref_ll({n: est_[n] for n in self.names}, rec_m['table'])
                self._cmp('recycled estimation: reported log likelihood vs the likelihood of the model at the returned estimates',
                          float(r_.data.logLike), want_, rel=1e-7, oracle='I07.recompute')
                ctx.probe('recycling next to a model whose name extends this one')
                ctx.log(kind)
        elif kind == 'ESTIMATE_CATALOG':
            # a specification with a catalog whose alternatives own different parameters, estimated for every alternative
            # in one call: the results of each alternative are the maximum of ITS likelihood, and the parameters that an
            # alternative owns alone hold its estimates afterwards
            import biogeme.biogeme as bio
            import biogeme.database as db
            import biogeme.expressions as ex
            from biogeme.catalog import Catalog
            from ..fs import REAL_OPEN
            if not os.path.exists('biogeme.toml'):
                with REAL_OPEN('biogeme.toml', 'w', encoding='utf-8') as f_:
                    f_.write('')      # estimate_catalog builds objects that read the default parameter file: empty = defaults
            shared = ex.Beta('ec_shared', 0.0, None, None, 0)
            own_l = ex.Beta('ec_lin', 0.0, None, None, 0)
            own_s = ex.Beta('ec_sq', 0.0, None, None, 0)
            x0 = ex.Variable('x0')
            bare = bool(a[0] % 2)      # the alternatives of the catalog are the parameters themselves
            if bare:
                cat = Catalog.from_dict('ec_shape', {'lin': own_l, 'sq': own_s})
                dev = shared * x0 + cat - ex.Variable('w')
                ctx.probe('catalog whose alternatives are bare parameters')
            else:
                cat = Catalog.from_dict('ec_shape', {'lin': own_l * x0, 'sq': own_s * x0 * x0})
                dev = shared + cat - ex.Variable('w')
            ll = -(dev * dev) - 0.1 * (shared * shared)
            B = bio.BIOGEME(db.Database('ec', self.table.copy()), ll, parameters=self._params(1))
            B.modelName = 'ec'
            res = B.estimate_catalog()
            xs = [float(v) for v in self.table['x0']]
            ws = [float(v) for v in self.table['w']]

            def ll_of(pw, s_, o_):
                if bare:
                    return sum(-(s_ * x_ + o_ - w_) ** 2 - 0.1 * s_ * s_ for x_, w_ in zip(xs, ws))
                return sum(-(s_ + o_ * x_ ** pw - w_) ** 2 - 0.1 * s_ * s_ for x_, w_ in zip(xs, ws))
            for cid, pw, own in (('ec_shape:lin', 1, own_l), ('ec_shape:sq', 2, own_s)):
                if cid not in res:
                    ctx.fail('I07.recompute', f'estimate_catalog returned results for {sorted(res)}; {cid} is missing')
                est_ = {n_: float(v_) for n_, v_ in res[cid].get_beta_values().items()}
                want_ = ll_of(pw, est_['ec_shared'], est_[own.name])
                self._cmp(f'estimate_catalog [{cid}]: reported final log likelihood vs the likelihood at the returned estimates',
                          float(res[cid].data.logLike), want_, rel=1e-7, oracle='I07.recompute')
                if abs(float(own.initValue) - est_[own.name]) > 0:
                    ctx.fail('I07.writeback', f'estimate_catalog [{cid}]: after the call the parameter {own.name}, owned by this '
                                              f'alternative alone, holds {own.initValue!r}; its estimate is {est_[own.name]!r}')
            ctx.probe('every alternative of a catalog estimated in one call')
            ctx.log(kind)
        elif kind == 'ESTIMATE_NAN_REGION':
            # a likelihood that is not a number in a region that the first trial step reaches (y log(rate) - rate without a
            # positivity bound, started at 0.5 with a mean of y below 0.15): the default family of algorithms rejects such
            # trial points and returns the maximum, rate = mean of y
            import biogeme.biogeme as bio
            import biogeme.database as db
            import biogeme.expressions as ex
            t = self.table.copy()
            t['yy'] = [0.1 + 0.02 * (i_ % 5) for i_ in range(len(t))]
            ybar = sum(t['yy']) / len(t)
            algo = ['simple_bounds', 'simple_bounds_newton', 'simple_bounds_BFGS'][a[0] % 3]
            rate = ex.Beta('nr_rate', 0.5, None, None, 0)
            B = bio.BIOGEME(db.Database('nr', t), ex.Variable('yy') * ex.log(rate) - rate, parameters=self._params(1))
            B.modelName = 'nr'
            B.biogeme_parameters.set_value('optimization_algorithm', algo)
            r_ = B.estimate()
            e_ = float(r_.get_beta_values()['nr_rate'])
            if not (e_ > 0):
                ctx.fail('I07.recompute', f'estimate [{algo}] of a rate whose likelihood exists for positive values only: {e_!r}')
            want_ = sum(float(y_) * math.log(e_) - e_ for y_ in t['yy'])
            self._cmp(f'estimate [{algo}] next to a region without likelihood: reported final log likelihood vs the likelihood at '
                      'the returned estimate', float(r_.data.logLike), want_, rel=1e-7, oracle='I07.recompute')
            if float(r_.data.logLike) < float(r_.data.initLogLike) - 1e-9:
                ctx.fail('I07.improve', f'estimate [{algo}]: final log likelihood {r_.data.logLike!r} below the initial one '
                                        f'{r_.data.initLogLike!r}')
            if r_.algorithm_has_converged() and abs(e_ - ybar) > 0.01 * ybar:
                ctx.fail('I07.stationary', f'estimate [{algo}] reports convergence at rate={e_!r}; the maximum is at the mean of y, '
                                           f'{ybar!r}')
            ctx.probe('estimation next to a region where the likelihood is not a number')
            ctx.log(kind, algo)
        elif kind == 'CHANGE_INIT_KEPT':
            # the results of an estimation are a record: later by-name changes of the starting values of the object that
            # produced them do not alter them (checked for every kept record at the start of every operation)
            if self.objects:
                rec = self.objects[a[0] % len(self.objects)]
                rec['b'].change_init_values(self.point(a[1]))
                self._check_kept()
            ctx.log(kind)
        else:
            raise RuntimeError(f'unknown op {kind}')
        ctx.state([kind, len(self.objects), sorted(map(str, self.settings))[:40], len(self.memo)])

    # -- estimation profile -------------------------------------------------------------
    def _bounds_ok(self, algo, est, what):
        if algo not in BOUNDED:
            return
        for i, nm in enumerate(self.cfg['names']):
            bd = self.cfg['bounds'][i] if self.cfg.get('bounds') else None
            if not bd:
                continue
            v = float(est[nm])
            eps = 1e-9 * max(1.0, abs(v))
            if (bd[0] is not None and v < bd[0] - eps) or (bd[1] is not None and v > bd[1] + eps):
                self.ctx.fail('I07.bounds', f'{what} [{algo}]: estimate {nm}={v!r} violates its bounds {bd}')

    def _fd_grad(self, x, table):
        g = {}
        for nm in self.names:
            h = 1e-5 * max(1.0, abs(x[nm]))
            xp, xm = dict(x), dict(x)
            xp[nm] += h
            xm[nm] -= h
            g[nm] = (self.ref_ll(xp, table)[0] - self.ref_ll(xm, table)[0]) / (2 * h)
        return g

    def estimate(self, algo, boot, save, reuse, T, tol=None):
        ctx = self.ctx
        np = self.np
        if reuse and self.objects:
            rec = self.objects[-1]
            ctx.probe('estimation on an object that was used before')
        else:
            rec = self.make_object(T, None, save=save)
        b = rec['b']
        b.biogeme_parameters.set_value('optimization_algorithm', algo)
        # buggify: with or without the HTML report (written before the caller reads anything from the results)
        b.biogeme_parameters.set_value('generate_html', bool((T or 0) % 2))
        if self.cfg['K'] >= 2 and (T or 0) % 3 == 0:
            # another model built on SOME of the same parameter objects (a restricted specification) before this one is
            # estimated: the results of this estimation are those of its own parameters, by name
            import biogeme.biogeme as bio
            import biogeme.database as db
            shared = [rec['betas'][n_] for n_ in sorted(self.cfg['names'])[1:]]
            sub = shared[0] * shared[0]
            for s_ in shared[1:]:
                sub = sub + s_ * s_
            bio.BIOGEME(db.Database('restricted', rec['table'].copy()), {'log_like': -sub}, parameters=self._params(1))
            ctx.probe('restricted model built on shared parameter objects before the estimation')
        # the tolerance is a setting of the object that may change between two estimations (buggify knob): what
        # "convergence reported" promises is measured against the value in force for THIS estimation
        default_tol = 1.220703125e-4
        if algo == 'scipy':
            tol = None
        b.biogeme_parameters.set_value('tolerance', tol if tol is not None else default_tol)
        if tol is not None:
            ctx.probe('estimation with a non-default tolerance')
        if boot:
            b.biogeme_parameters.set_value('bootstrap_samples', boot)
        fixed_before = {nm: rec['betas'][nm].initValue for nm, _ in self.cfg['fixed']}
        if (T or 0) % 4 == 1 and algo in BOUNDED and not self.cfg.get('inf_bounds'):
            # random starting values asked for before the estimation: they concern the free parameters only (the number
            # that stands for a missing bound is larger than every declared bound, so that each interval is a proper one;
            # with bounds written as infinite numbers numpy refuses to draw, which is not this property's business)
            b.set_random_init_values(default_bound=3.0)
            ctx.probe('random starting values before the estimation')
        r = b.estimate(run_bootstrap=bool(boot))
        ctx.count('estimations')
        est = {n: float(v) for n, v in r.get_beta_values().items()}
        x = {n: est[n] for n in self.names}
        table = rec['table']
        want, _, _ = self.ref_ll(x, table)
        # (1) the reported final value is the likelihood at the returned estimates
        self._cmp(f'estimate [{algo}]: reported final log likelihood vs the likelihood at the returned estimates',
                  float(r.data.logLike), want, oracle='I07.recompute')
        if algo not in BOUNDED and any(self.cfg.get('bounds') or []):
            # documented: these algorithms ignore bounds; what they leave behind (saved iterations,
            # starting values) may be an infeasible start for a later bounded estimation
            self.infeasible_start_possible = True
        feasible_start = not (algo in BOUNDED and getattr(self, 'infeasible_start_possible', False))
        if not feasible_start:
            ctx.probe('bounded estimation after an unbounded one (start may be infeasible)')
        if feasible_start and r.data.initLogLike is not None and float(r.data.logLike) < float(r.data.initLogLike) - 1e-9 * max(
                1.0, abs(r.data.initLogLike)):
            cause_ = str((r.data.optimizationMessages or {}).get('Cause of termination', ''))
            capped_ = ' (stopped by the iteration cap: ' + cause_ + ')' if cause_.startswith('Maximum number of iterations') else ''
            ctx.violate('I07.improve', f'estimate [{algo}]: final log likelihood {r.data.logLike!r} below the initial '
                                       f'one {r.data.initLogLike!r}{capped_}')
        # (2) bounds
        self._bounds_ok(algo, est, 'estimate')
        # (3) derivatives reported = derivatives at that point, by a fresh object and by the same object; the same
        # object first computes derivatives somewhere else (what the results hold must be theirs, not a view of
        # whatever the object computed last)
        other = self.vec(self.point(7))
        b.calculate_likelihood_and_derivatives(other, scaled=False, hessian=True, bhhh=True)
        fresh = self.make_object(1, None)
        self.objects.pop()
        for who, obj in (('a fresh object', fresh['b']), ('the same object', b)):
            out = obj.calculate_likelihood_and_derivatives(self.vec(x), scaled=False, hessian=True, bhhh=True)
            self._cmp(f'estimate [{algo}, bootstrap={boot}]: log likelihood recomputed by {who}', float(out.function),
                      float(r.data.logLike), oracle='I07.recompute' if who.startswith('a fresh') else 'I07.sameobj')
            orc = 'I07.deriv' if who.startswith('a fresh') else 'I07.sameobj'
            self._cmp(f'estimate [{algo}]: reported gradient vs {who}', r.data.g, out.gradient, rel=1e-7, oracle=orc)
            self._cmp(f'estimate [{algo}]: reported Hessian vs {who}', r.data.H, out.hessian, rel=1e-7, oracle=orc)
            self._cmp(f'estimate [{algo}]: reported BHHH vs {who}', r.data.bhhh, out.bhhh, rel=1e-7, oracle=orc)
        if self.cfg.get('panel'):
            # panel data: the BHHH matrix is the sum over the INDIVIDUALS of the outer products of their gradients
            # (reference: finite differences of the per-row reference values, added up per individual)
            xf = self.full(x)
            grads = {}
            for j_, nm_ in enumerate(self.names):
                h_ = 1e-6 * max(1.0, abs(x[nm_]))
                up, dn = dict(xf), dict(xf)
                up[nm_] += h_
                dn[nm_] -= h_
                ru = specs.ref_loglike(self.cfg, table, up, per_row=True)
                rd = specs.ref_loglike(self.cfg, table, dn, per_row=True)
                for r_, (u_, d_) in enumerate(zip(ru, rd)):
                    grads.setdefault(float(table['grp'].iloc[r_]), np.zeros(len(self.names)))[j_] += (u_ - d_) / (2 * h_)
            want_b = sum(np.outer(g_, g_) for g_ in grads.values())
            got_b = np.asarray(r.data.bhhh, dtype=float)
            if got_b.shape != want_b.shape or float(np.max(np.abs(got_b - want_b))) > 1e-4 * max(1.0, float(np.max(np.abs(want_b)))):
                ctx.fail('I07.deriv', f'estimate [{algo}] on panel data: reported BHHH {got_b.tolist()} is not the sum over the '
                                      f'individuals of the outer products of their gradients {want_b.tolist()}')
            ctx.probe('BHHH on panel data compared with the per-individual reference')
        # (4) starting values of the formulas = estimates; fixed untouched
        for nm in self.cfg['names']:
            iv = float(rec['betas'][nm].initValue)
            if iv != est[nm]:
                ctx.fail('I07.writeback', f'estimate [{algo}]: starting value of {nm} is {iv!r} after estimation, '
                                          f'the estimate is {est[nm]!r}')
        for nm, twin in rec['betas'].get('__twins__', []):
            if float(twin.initValue) != est[nm]:
                ctx.fail('I07.writeback', f'estimate [{algo}]: parameter {nm} is declared by two Beta objects; after estimation '
                                          f'the second one holds {twin.initValue!r}, the estimate is {est[nm]!r}')
            ctx.probe('twin Beta objects followed through the write-back')
        for nm, val in fixed_before.items():
            if rec['betas'][nm].initValue != val or rec['betas'][nm].status == 0:
                ctx.fail('I07.writeback', f'fixed parameter {nm} changed from {val!r} to {rec["betas"][nm].initValue!r}')
        gbv = b.get_beta_values()
        for nm in self.cfg['names']:
            if float(gbv[nm]) != est[nm]:
                ctx.fail('I07.writeback', f'get_beta_values()[{nm}]={gbv[nm]!r} after estimation, estimate {est[nm]!r}')
        # (5) stationarity when convergence is reported (gradient from finite differences of the reference)
        if r.algorithm_has_converged():
            msgs = getattr(r.data, 'optimizationMessages', None) or {}
            self._stationary(algo, x, table, want, f0=r.data.initLogLike, eps=tol if tol is not None else default_tol, said={k_: str(msgs[k_]) for k_ in ('Cause of termination', 'Relative gradient',
                                                                               'Number of iterations') if k_ in msgs})
        ctx.log('ESTIMATE', algo, boot, fhex(r.data.logLike), bool(r.algorithm_has_converged()))
        rec['estimated'] = True
        if not hasattr(self, 'kept_results'):
            self.kept_results = []
        self.kept_results.append({'r': r, 'algo': algo, 'betas': dict(est), 'vec': [float(v) for v in r.data.betaValues],
                                  'll': float(r.data.logLike), 'g': [float(v) for v in np.asarray(r.data.g).ravel()]})
        self.kept_results = self.kept_results[-4:]
        return r

    def _check_kept(self):
        np = self.np
        for k_ in getattr(self, 'kept_results', []):
            r = k_['r']
            now = {n: float(v) for n, v in r.get_beta_values().items()}
            if now != k_['betas'] or [float(v) for v in r.data.betaValues] != k_['vec'] or float(r.data.logLike) != k_['ll'] \
                    or [float(v) for v in np.asarray(r.data.g).ravel()] != k_['g']:
                self.ctx.fail('I07.record', f"the results of an earlier estimation [{k_['algo']}] changed afterwards: estimates "
                                            f"{k_['betas']} -> {now}, values {k_['vec']} -> {[float(v) for v in r.data.betaValues]}, "
                                            f"log likelihood {k_['ll']!r} -> {float(r.data.logLike)!r}")

    def _stationary(self, algo, x, table, f, f0=None, said=None, eps=1.220703125e-4):
        ctx = self.ctx
        g = self._fd_grad(x, table)
        # the tolerance in force bounds the gradient when the gradient criterion stopped the algorithm; the package also
        # reports convergence when the relative change of the iterates falls below "steptol", which bounds the step,
        # not the gradient: then only the default bound is demanded
        cause = str((said or {}).get('Cause of termination', ''))
        tol = 10 * (eps if cause.startswith('Relative gradient') else max(eps, 1.220703125e-4))
        if cause.startswith('Relative change'):
            ctx.probe('convergence reported through the step tolerance')
        for i, nm in enumerate(self.cfg['names']):
            bd = self.cfg['bounds'][i] if (self.cfg.get('bounds') and algo in BOUNDED) else None
            v = x[nm]
            lo = bd[0] if (bd and bd[0] is not None) else -math.inf
            hi = bd[1] if (bd and bd[1] is not None) else math.inf
            # projected-gradient measure (the criterion bound-constrained algorithms report): how far
            # a unit ascent step could move inside the bounds
            step = min(max(v + g[nm], lo), hi) - v
            # the optimisation package fixes its "typical value" of the objective at the first point it sees: the
            # denominator of its relative gradient is max(|f(x)|, |f(x0)|, 1)
            rel = abs(step) * max(1.0, abs(v)) / max(1.0, abs(f), abs(float(f0)) if f0 is not None else 0.0)
            if step != g[nm]:
                ctx.probe('bound active (or nearly) at the returned estimates')
            if rel > tol:
                ctx.fail('I07.stationary', f'[{algo}] convergence reported but the likelihood still increases along {nm}: '
                                           f'dLL/d{nm}={g[nm]!r}, feasible ascent step {step!r} (relative {rel!r} > {tol!r}), '
                                           f'bounds {bd}; the optimiser said {said}')

    def estimate_all(self):
        ctx = self.ctx
        res = {}
        for algo in ALGOS:
            rec = self.make_object(1, None)
            self.objects.pop()
            b = rec['b']
            b.biogeme_parameters.set_value('optimization_algorithm', algo)
            r = b.estimate()
            ctx.count('estimations')
            est = {n: float(v) for n, v in r.get_beta_values().items()}
            self._bounds_ok(algo, est, 'estimate')
            x = {n: est[n] for n in self.names}
            want, _, _ = self.ref_ll(x, rec['table'])
            self._cmp(f'estimate [{algo}]: reported final log likelihood vs the likelihood at the returned estimates',
                      float(r.data.logLike), want, oracle='I07.recompute')
            if r.algorithm_has_converged():
                res[algo] = float(r.data.logLike)
                self._stationary(algo, x, rec['table'], want, f0=r.data.initLogLike)
        groups = [[a for a in res if a in BOUNDED], [a for a in res if a not in BOUNDED]]
        any_bounds = any(bd for bd in (self.cfg.get('bounds') or []))
        if not self.active_planned:
            groups = [list(res)]
        for grp in groups:
            if len(grp) >= 2:
                vals = [res[a] for a in grp]
                if max(vals) - min(vals) > (2e-3 if self.active_planned else 1e-5) * max(1.0, abs(max(vals))):
                    lo = min(grp, key=lambda a: res[a])
                    hi = max(grp, key=lambda a: res[a])
                    ctx.fail('I07.agree', f'algorithms disagree on the maximum: {hi}={res[hi]!r}, {lo}={res[lo]!r}')
                ctx.probe('algorithms compared on one problem', len(grp))
        ctx.log('ESTIMATE_ALL', sorted((a, fhex(v)) for a, v in res.items()))
