"""W-panel: panel likelihood = product over each individual's rows, shared draws, independent
of the order of individuals and rows (property C09)."""

from __future__ import annotations

import math
import random

from .. import ref
from ..core import fhex

name = 'panel'
RAISE_ORACLE = 'I09.raise'


def make_config(rng, profile, tier):
    ni = rng.choice([1, 2, 3, 4, 5, 8]) if rng.random() < 0.6 else rng.randrange(1, 9)
    kind = rng.choice(['int', 'neg', 'float', 'big', 'int'])
    pool = {'int': list(range(1, 40)), 'neg': list(range(-20, 20)),
            'float': [x / 4 for x in range(-30, 60)], 'big': [10 ** 6 + 7 * i for i in range(50)] + [3, 17, 10 ** 9]}[kind]
    ids = rng.sample(pool, ni)
    counts = [rng.choice([1, 1, 2, 3, 4, 6]) for _ in range(ni)]
    return {
        'ids': [float(x) for x in ids], 'counts': counts, 'data_seed': rng.randrange(1 << 30),
        'order_seed': rng.randrange(1 << 30),
        'template': rng.choice(['logitp', 'expsq', 'mixed', 'mixed2']),
        'R': rng.choice([1, 2, 5, 10]),
        'betas': {'b0': round(rng.uniform(-1, 1), 2), 'b1': round(rng.uniform(-1, 1), 2),
                  's': round(rng.uniform(0.2, 1.2), 2)},
        'threads': rng.choice([1, 2, 3, 0]),
    }


def make_ops(rng, cfg, profile, tier):
    ops = []
    ni = len(cfg['ids'])
    for _ in range(rng.randrange(4, 16)):
        r = rng.random()
        if r < 0.15:
            ops.append({'op': 'REORDER', 'a': [rng.randrange(1 << 16), rng.randrange(1 << 16)]})
        elif r < 0.2:
            ops.append({'op': 'SHUFFLE_INPLACE', 'a': [rng.randrange(1 << 16)]})
        elif r < 0.35:
            ops.append({'op': 'REMOVE', 'a': [rng.choice(['individual', 'first', 'last', 'cond']), rng.randrange(64),
                                              float(rng.randrange(-2, 3))]})
        elif r < 0.6:
            ops.append({'op': 'EVAL_C', 'a': [rng.choice(['traj', 'logtraj', 'mc', 'logmc']), rng.randrange(5)]})
        elif r < 0.8:
            ops.append({'op': 'BIOGEME', 'a': [rng.choice(list(range(1, ni + 3)) + [0]), rng.randrange(5),
                                               rng.choice(['traj', 'mc'])]})
        elif r < 0.83:
            ops.append({'op': 'MAP', 'a': []})
        elif r < 0.85:
            ops.append({'op': 'SHUFFLE_SIM_KEPT', 'a': [rng.randrange(1 << 16)]})
        elif r < 0.855:
            ops.append({'op': 'SPLIT', 'a': [rng.randrange(2, 5)]})
        elif r < 0.858:
            ops.append({'op': 'MC_THEN_PANEL', 'a': [rng.randrange(5)]})
        elif r < 0.859:
            ops.append({'op': 'REDECLARE', 'a': []})
        elif r < 0.8595:
            ops.append({'op': 'SAMPLE_MAP_MANY', 'a': []})
        elif r < 0.86:
            ops.append({'op': 'FLATTEN', 'a': [rng.randrange(2)]})
        elif r < 0.9:
            ops.append({'op': 'BOOT_EST', 'a': [rng.choice(list(range(1, ni + 3))), rng.randrange(5)]})
        elif r < 0.925:
            ops.append({'op': 'FLATTEN', 'a': [rng.randrange(2)]})
        elif r < 0.94:
            ops.append({'op': 'SAMPLE_MAP_MANY', 'a': []})
        elif r < 0.955:
            ops.append({'op': 'REDECLARE', 'a': []})
        else:
            ops.append({'op': 'SIZE', 'a': [rng.choice(['traj', 'mc'])]})
    return ops


def died_is_outcome(spec, res):
    return False


def pinned_ops(spec):
    return set()


def simplifications(spec):
    cfg = spec['config']
    if len(cfg['ids']) > 1:
        yield dict(spec, config=dict(cfg, ids=cfg['ids'][:1], counts=cfg['counts'][:1]))
        yield dict(spec, config=dict(cfg, ids=cfg['ids'][:2], counts=cfg['counts'][:2]))
    if cfg['R'] > 1:
        yield dict(spec, config=dict(cfg, R=1))


def nontrivial(spec, res):
    cfg = spec['config']
    c = res.get('counters', {})
    return len(set(cfg['counts'])) >= 2 and len(cfg['ids']) >= 2 and (c.get('op:REORDER', 0) + c.get('removed', 0)) >= 1


def draw_value(i, r, salt, n=0):
    """Deterministic user generator: value for position i, draw r. The series do NOT depend on the sample size n they
    were asked for: the library is free to use a table generated for a larger sample (it does so itself after rows of a
    panel table were removed: the draws are generated before the map of the individuals is rebuilt), which no property
    forbids as long as every individual keeps one series for all its rows."""
    return ((i * 7 + r * 13 + salt * 5) % 11) / 11.0 - 0.5


class Session:
    def __init__(self, ctx):
        from .. import env
        env.import_library()
        import numpy as np
        import pandas as pd
        self.np, self.pd = np, pd
        self.ctx = ctx
        self.cfg = ctx.config
        rng = random.Random(self.cfg['data_seed'])
        rows = []
        tag = 0
        for ident, cnt in zip(self.cfg['ids'], self.cfg['counts']):
            for _ in range(cnt):
                rows.append({'pid': ident, 'x0': float(rng.randrange(-2, 3)), 'x1': round(rng.uniform(-1, 1), 2),
                             'y': float(rng.randrange(2)), 'tag': float(tag)})
                tag += 1
        self.rows = rows            # model: all current rows
        self.memo = {}
        self.calls = []             # shapes requested from the draw generator
        self.db = None
        self.present(self.cfg['order_seed'], self.cfg['order_seed'] + 1)
        if 1 in self.cfg['counts']:
            ctx.probe('individual with one row')

    # -- data presentation ----------------------------------------------------------
    def present(self, pi_seed, sigma_seed):
        """Builds a new Database with individuals (contiguous blocks) and the rows inside each
        individual in a seeded order."""
        import biogeme.database as db
        ids = sorted({r['pid'] for r in self.rows})
        random.Random(pi_seed).shuffle(ids)
        out = []
        srng = random.Random(sigma_seed)
        for ident in ids:
            block = [r for r in self.rows if r['pid'] == ident]
            srng.shuffle(block)
            out += block
        df = self.pd.DataFrame(out, columns=['pid', 'x0', 'x1', 'y', 'tag'])
        self.db = db.Database('p', df)
        self.db.panel('pid')
        sess = self

        def gen(sample_size, number_of_draws):
            sess.calls.append((sample_size, number_of_draws))
            return sess.np.array([[draw_value(i, r, 0, sample_size) for r in range(number_of_draws)] for i in range(sample_size)])

        def gen2(sample_size, number_of_draws):
            sess.calls.append((sample_size, number_of_draws))
            return sess.np.array([[draw_value(i, r, 3, sample_size) for r in range(number_of_draws)] for i in range(sample_size)])

        self.gens = {'DET': (gen, 'deterministic'), 'DET2': (gen2, 'deterministic 2')}
        self.db.set_random_number_generators(dict(self.gens))
        if ids != sorted(ids):
            self.ctx.probe('ids not sorted as presented')
        self.stale = False

    # -- formulas --------------------------------------------------------------------
    def row_ast(self):
        t = self.cfg['template']
        if t == 'expsq':
            d = ['-', ['beta', 'b0'], ['var', 'x1']]
            return ['exp', ['neg', ['*', ['num', 0.1], ['*', d, d]]]]
        if t == 'logitp':
            v = ['+', ['beta', 'b0'], ['*', ['beta', 'b1'], ['var', 'x0']]]
        elif t == 'mixed':
            v = ['*', ['+', ['beta', 'b0'], ['*', ['beta', 's'], ['draws', 'xi', 'DET']]], ['var', 'x0']]
        else:
            v = ['+', ['*', ['+', ['beta', 'b0'], ['*', ['beta', 's'], ['draws', 'xi', 'DET']]], ['var', 'x0']],
                 ['*', ['draws', 'zeta', 'DET2'], ['var', 'x1']]]
        p1 = ['/', ['exp', v], ['+', ['num', 1.0], ['exp', v]]]
        p0 = ['/', ['num', 1.0], ['+', ['num', 1.0], ['exp', v]]]
        return ['elem', {'0': p0, '1': p1}, ['var', 'y']]

    def uses_draws(self):
        return self.cfg['template'] in ('mixed', 'mixed2')

    def build(self, form, betas, bounds=(None, None)):
        specs_ = {k: (v, bounds[0], bounds[1], 0) for k, v in betas.items()}
        b = ref.Builder(specs_, share_elementary=True)
        import biogeme.expressions as ex
        row = b.build(self.row_ast())
        traj = ex.PanelLikelihoodTrajectory(row)
        if form == 'traj':
            return traj
        if form == 'logtraj':
            return ex.log(traj)
        if form == 'mc':
            return ex.MonteCarlo(traj)
        return ex.log(ex.MonteCarlo(traj))

    def betas_at(self, k):
        b = dict(self.cfg['betas'])
        b['b0'] = b['b0'] + 0.25 * k
        b['b1'] = b['b1'] - 0.1 * k
        return b

    # -- reference ---------------------------------------------------------------------
    def reference(self, form, betas):
        """dict id -> value, from the row list: product over the individual's rows; mean over
        the R draws of the products when draws are involved."""
        ids = sorted({r['pid'] for r in self.rows})
        R = self.cfg['R'] if form in ('mc', 'logmc') else None
        ast = self.row_ast()
        out = {}
        for pos, ident in enumerate(ids):
            block = [r for r in self.rows if r['pid'] == ident]
            if R is None:
                if self.uses_draws():
                    return None
                prod = 1.0
                for r in block:
                    prod *= ref.ev(ast, ref.Env(r, betas))
                val = prod
            else:
                tot = 0.0
                for d in range(R):
                    draws = {'xi': draw_value(pos, d, 0, len(ids)), 'zeta': draw_value(pos, d, 3, len(ids))}
                    prod = 1.0
                    for r in block:
                        prod *= ref.ev(ast, ref.Env(r, betas, draws=draws))
                    tot += prod
                val = tot / R
            out[ident] = math.log(val) if form in ('logtraj', 'logmc') else val
        return out

    def compare(self, what, got_ids, got_vals, want, oracle='I09.value'):
        ctx = self.ctx
        if len(got_vals) != len(want):
            ctx.fail(oracle, f'{what}: {len(got_vals)} values for {len(want)} individuals')
        for ident, v in zip(got_ids, got_vals):
            if ident not in want:
                ctx.fail(oracle, f'{what}: value reported for unknown individual {ident}')
            if not ref.close(float(v), want[ident], 1e-10, 1e-13):
                ctx.fail(oracle, f'{what}: individual {ident} -> {float(v)!r}, the product over its rows'
                                 f'{" averaged over the draws" if "mc" in what else ""} is {want[ident]!r}')

    def check_map(self):
        ctx = self.ctx
        m = self.db.individualMap
        data = self.db.data
        ids = sorted({r['pid'] for r in self.rows})
        got = [float(x) for x in m.index.to_list()]
        if sorted(got) != ids or len(got) != len(set(got)):
            ctx.fail('I09.map', f'individual map lists {got[:8]}, the table holds individuals {ids[:8]}')
        covered = []
        for ident, (lo, hi) in zip(got, m.to_numpy().tolist()):
            lo, hi = int(lo), int(hi)
            blk = data.iloc[lo:hi + 1]
            if any(float(v) != ident for v in blk['pid'].to_list()):
                ctx.fail('I09.map', f'block [{lo},{hi}] of individual {ident} contains rows of other individuals')
            own = sorted(r['tag'] for r in self.rows if r['pid'] == ident)
            if sorted(float(t) for t in blk['tag'].to_list()) != own:
                ctx.fail('I09.map', f'block [{lo},{hi}] of individual {ident} is not exactly its rows')
            covered += list(range(lo, hi + 1))
        if sorted(covered) != list(range(len(self.rows))):
            ctx.fail('I09.map', 'blocks of the individual map do not partition the rows')
        if self.db.get_sample_size() != len(ids):
            ctx.fail('I09.size', f'sample size {self.db.get_sample_size()} for {len(ids)} individuals')

    # -- operations -----------------------------------------------------------------------
    def apply(self, i, op):
        ctx = self.ctx
        kind, a = op['op'], op['a']
        ctx.count('op:' + kind)
        np = self.np
        ids = sorted({r['pid'] for r in self.rows})
        if kind == 'REORDER':
            self.present(a[0], a[1])
            self.check_map()
            ctx.log(kind)
        elif kind == 'SHUFFLE_INPLACE':
            # the rows of the SAME Database object are re-arranged with pandas (same number of rows): the map must be
            # rebuilt by whatever comes next
            idx = list(range(len(self.db.data)))
            random.Random(a[0]).shuffle(idx)
            self.db.data = self.db.data.iloc[idx].reset_index(drop=True)
            self.stale = True
            ctx.count('removed')
            ctx.log(kind)
        elif kind == 'REMOVE':
            mode, sel, val = a
            ident = ids[sel % len(ids)]
            block = [r for r in self.db.data['tag'][self.db.data['pid'] == ident].to_list()]
            import biogeme.expressions as ex
            if mode == 'individual':
                victims = {r['tag'] for r in self.rows if r['pid'] == ident}
                cond = ex.Variable('pid') == ident
            elif mode in ('first', 'last'):
                t = float(block[0] if mode == 'first' else block[-1])
                victims = {t}
                cond = ex.Variable('tag') == t
            else:
                victims = {r['tag'] for r in self.rows if r['x0'] == val}
                cond = ex.Variable('x0') == val
            if len(victims) >= len(self.rows) or not victims:
                ctx.log(kind, 'skip')
            else:
                self.db.remove(cond)
                self.rows = [r for r in self.rows if r['tag'] not in victims]
                self.stale = True
                ctx.count('removed')
                if len({r['pid'] for r in self.rows}) < len(ids):
                    ctx.probe('removal empties an individual')
                ctx.log(kind, mode, len(victims))
        elif kind == 'EVAL_C':
            form, k = a
            if self.uses_draws() and form in ('traj', 'logtraj'):
                form = 'mc' if form == 'traj' else 'logmc'
            if not self.uses_draws() and form in ('mc', 'logmc'):
                form = 'traj' if form == 'mc' else 'logtraj'
            betas = self.betas_at(k)
            want = self.reference(form, betas)
            e = self.build(form, betas)
            self.calls.clear()
            vals = e.get_value_c(database=self.db, betas=betas, number_of_draws=self.cfg['R'],
                                 aggregation=False, prepare_ids=True)
            ids_now = sorted({r['pid'] for r in self.rows})
            self.compare(f'{form} through get_value_c', ids_now, list(vals), want)
            self._after_eval(form)
            key = (form, k, tuple(sorted(r['tag'] for r in self.rows)))
            self._memo(key, ids_now, list(vals))
            ctx.log(kind, form, k, [fhex(v) for v in list(vals)[:4]])
        elif kind == 'BIOGEME':
            T, k, form = a
            form = 'mc' if self.uses_draws() else 'traj'
            import biogeme.biogeme as bio
            from biogeme.parameters import Parameters
            betas = self.betas_at(k)
            lform = 'logtraj' if form == 'traj' else 'logmc'
            want = self.reference(lform, betas)
            e = self.build(lform, betas)
            p = Parameters()
            p.set_value('number_of_threads', T)
            p.set_value('number_of_draws', self.cfg['R'])
            p.set_value('save_iterations', False)
            self.calls.clear()
            # buggify: with or without the audit of the specification (an option of the constructor)
            skip_ = bool((T + k) % 3 == 0)
            if skip_:
                ctx.probe('object built without audit')
            b = bio.BIOGEME(self.db, {'log_like': e, 'prob': self.build(form, betas)}, parameters=p, skip_audit=skip_)
            ids_now = sorted({r['pid'] for r in self.rows})
            names = b.free_beta_names
            x = [betas[n] for n in names]
            ll = float(b.calculate_likelihood(x, scaled=False))
            tot = sum(want.values())
            if not ref.close(ll, tot, 1e-10, 1e-12):
                ctx.fail('I09.ll', f'log likelihood with T={T}: {ll!r}, the sum over individuals of the log of the '
                                   f'product over their rows is {tot!r}')
            lls = float(b.calculate_likelihood(x, scaled=True))
            if not ref.close(lls, tot / len(ids_now), 1e-10, 1e-12):
                ctx.fail('I09.size', f'scaled log likelihood {lls!r}: the sample size should be the number of '
                                     f'individuals ({len(ids_now)}), giving {tot / len(ids_now)!r}')
            sim = b.simulate({n: betas[n] for n in names})
            self.compare(f'{lform} through simulate (T={T})', [float(v) for v in sim.index.to_list()],
                         sim['log_like'].to_list(), want)
            wantp = self.reference(form, betas)
            self.compare(f'{form} through simulate (T={T})', [float(v) for v in sim.index.to_list()],
                         sim['prob'].to_list(), wantp)
            self._after_eval(form)
            if T > len(ids_now):
                ctx.probe('T > individuals')
            ctx.count('biogeme_objects')
            self.kept = {'b': b, 'db': self.db, 'betas': dict(betas), 'form': form, 'lform': lform, 'names': list(names),
                         'nrows': len(self.rows)}
            ctx.log(kind, T, k, fhex(ll))
        elif kind == 'SHUFFLE_SIM_KEPT':
            # an object built earlier on this Database; the blocks of individuals are then put in another order with
            # pandas (same rows); its next simulation reports every individual's value under that individual's id
            kept = getattr(self, 'kept', None)
            if kept is None or kept['db'] is not self.db or kept['nrows'] != len(self.rows) or self.uses_draws():
                ctx.log(kind, 'skip')
            else:
                order = sorted({r['pid'] for r in self.rows})
                random.Random(a[0]).shuffle(order)
                frames = [self.db.data[self.db.data['pid'] == i_] for i_ in order]
                import pandas as pd
                self.db.data = pd.concat(frames).reset_index(drop=True)
                self.stale = True
                for round_ in (1, 2):
                    sim = kept['b'].simulate({n: kept['betas'][n] for n in kept['names']})
                    self.compare(f"{kept['lform']} through simulate of an object built before the individuals were re-ordered "
                                 f"(call {round_})", [float(v) for v in sim.index.to_list()], sim['log_like'].to_list(),
                                 self.reference(kept['lform'], kept['betas']))
                    self.compare(f"{kept['form']} through simulate of an object built before the individuals were re-ordered "
                                 f"(call {round_})", [float(v) for v in sim.index.to_list()], sim['prob'].to_list(),
                                 self.reference(kept['form'], kept['betas']))
                self._after_eval(kept['form'])
                ctx.probe('simulation by an object built before the individuals were re-ordered')
                ctx.log(kind, len(order))
        elif kind == 'MC_THEN_PANEL':
            # ONE Database object: a Monte-Carlo formula is evaluated while the table is still cross-sectional (one series
            # per row), the table is then declared panel, and the panel formula with the same draw variables is evaluated
            # (one series per individual)
            if not self.uses_draws():
                ctx.log(kind, 'skip')
            else:
                import biogeme.database as db
                import biogeme.expressions as ex
                betas = self.betas_at(a[0])
                R = self.cfg['R']
                d = db.Database('pre', self.db.data[['pid', 'x0', 'x1', 'y', 'tag']].sort_values('pid', kind='stable')
                                .reset_index(drop=True))
                d.set_random_number_generators(dict(self.gens))
                bld = ref.Builder({k_: (v_, None, None, 0) for k_, v_ in betas.items()}, share_elementary=True)
                ast = self.row_ast()
                got = bld.build(ast)
                got = ex.MonteCarlo(got).get_value_c(database=d, betas=betas, number_of_draws=R, aggregation=False, prepare_ids=True)
                by_tag = {r_['tag']: r_ for r_ in self.rows}
                tags = [float(t_) for t_ in d.data['tag'].to_list()]
                n_ = len(tags)
                for pos, (t_, g_) in enumerate(zip(tags, got)):
                    w_ = sum(ref.ev(ast, ref.Env(by_tag[t_], betas, draws={'xi': draw_value(pos, q_, 0, n_),
                                                                          'zeta': draw_value(pos, q_, 3, n_)}))
                             for q_ in range(R)) / R
                    if not ref.close(float(g_), w_, 1e-10, 1e-13):
                        ctx.fail('I09.value', f'cross-sectional Monte-Carlo value of row {pos}: {float(g_)!r}, mean over its draws {w_!r}')
                d.panel('pid')
                e = self.build('mc', betas)
                vals = e.get_value_c(database=d, betas=betas, number_of_draws=R, aggregation=False, prepare_ids=True)
                ids_now = sorted({r_['pid'] for r_ in self.rows})
                self.compare('mc through get_value_c on a table that served a cross-sectional Monte-Carlo evaluation before '
                             'being declared panel', ids_now, list(vals), self.reference('mc', betas))
                ctx.probe('Monte-Carlo evaluation before and after panel() on one Database')
                ctx.log(kind, a[0])
        elif kind == 'FLATTEN':
            # one row per individual: the j-th observation of an individual (in the order of the table) fills the columns
            # j_<name>; nothing of another individual, nothing dropped - through the Database method (sorted table) or by
            # calling the function on the table as presented (identifiers in any order)
            import biogeme.tools.database as tdb
            import math as _m
            data_ = self.db.data[['pid', 'x0', 'x1', 'y', 'tag']].copy()
            if a[0]:
                # the table as a user may hold it: the blocks of the individuals in DEcreasing order of their identifiers
                data_ = data_.sort_values('pid', kind='stable', ascending=False).reset_index(drop=True)
                flat = tdb.flatten_database(data_, 'pid')
            else:
                self.db.build_panel_map()
                data_ = self.db.data[['pid', 'x0', 'x1', 'y', 'tag']].copy()
                flat = self.db.generate_flat_panel_dataframe()
            by_tag = {r_['tag']: r_ for r_ in self.rows}
            ids_now = sorted({r_['pid'] for r_ in self.rows})
            if sorted(float(v_) for v_ in flat.index.to_list()) != ids_now:
                ctx.fail('I09.flat', f'flat table rows {flat.index.to_list()} for the individuals {ids_now}')
            for ident in ids_now:
                own = [by_tag[float(t_)] for t_, p_ in zip(data_['tag'].to_list(), data_['pid'].to_list()) if float(p_) == ident]
                row = flat.loc[ident]
                for j_, r_ in enumerate(own, start=1):
                    for c_ in ('x0', 'x1', 'y', 'tag'):
                        key = f'{j_}_{c_}'
                        if key in flat.columns:
                            v_ = float(row[key])
                        elif c_ in flat.columns:
                            v_ = float(row[c_])
                        else:
                            ctx.fail('I09.flat', f'individual {ident}: column {c_} of its observation {j_} is nowhere in the flat table')
                        if v_ != r_[c_]:
                            ctx.fail('I09.flat', f'individual {ident}: observation {j_} has {c_} = {r_[c_]!r}, the flat table holds '
                                                 f'{v_!r}')
                extra = f'{len(own) + 1}_tag'
                if extra in flat.columns and not _m.isnan(float(row[extra])):
                    ctx.fail('I09.flat', f'individual {ident} has {len(own)} observations, the flat table lists more')
            self.stale = False
            ctx.probe('panel table flattened')
            ctx.log(kind, a[0], list(flat.shape))
        elif kind == 'SAMPLE_MAP_MANY':
            # bootstrap samples of the individuals: every sample has as many entries as there are individuals, each entry is
            # one individual with its own block of rows, and over 40 samples every individual is drawn at least once (the
            # probability of missing one is below 1e-15 for a uniform resampling)
            self.db.build_panel_map()
            ids_now = sorted({r_['pid'] for r_ in self.rows})
            full = {float(i_): (int(lo_), int(hi_)) for i_, (lo_, hi_) in zip(self.db.individualMap.index,
                                                                               self.db.individualMap.to_numpy())}
            seen = set()
            for _ in range(40):
                smp = self.db.sample_individual_map_with_replacement()
                if len(smp) != len(ids_now):
                    ctx.fail('I09.boot', f'a bootstrap sample of the individuals has {len(smp)} entries for {len(ids_now)} individuals')
                for i_, (lo_, hi_) in zip(smp.index, smp.to_numpy()):
                    if float(i_) not in full or full[float(i_)] != (int(lo_), int(hi_)):
                        ctx.fail('I09.boot', f'bootstrap entry {i_} -> rows {lo_}..{hi_} is not an individual with its own block')
                    seen.add(float(i_))
            if seen != set(ids_now):
                ctx.fail('I09.boot', f'in 40 bootstrap samples of {len(ids_now)} individuals, {sorted(set(ids_now) - seen)} were never '
                                     f'drawn')
            self.stale = False
            ctx.probe('40 bootstrap samples of the individuals')
            ctx.log(kind, len(ids_now))
        elif kind == 'REDECLARE':
            # the table is declared panel AGAIN (what a user does after changing it): the map is that of the table as it is
            seq_ = [float(v_) for v_ in self.db.data['pid'].to_list()]
            if 1 + sum(1 for x_, y_ in zip(seq_, seq_[1:]) if x_ != y_) != len(set(seq_)):
                # rows of one individual are no longer consecutive (re-arranged in place): declaring is refused, rightly
                ctx.log(kind, 'skip-not-contiguous')
                ctx.state([kind, len(self.rows), len({r['pid'] for r in self.rows}), self.stale])
                return
            self.db.panel('pid')
            self.check_map()
            n_ = len({r_['pid'] for r_ in self.rows})
            for what_, v_ in (('get_sample_size()', self.db.get_sample_size()), ('getSampleSize()', self.db.getSampleSize())):
                if int(v_) != n_:
                    ctx.fail('I09.size', f'{what_} = {v_} after the table was declared panel again; it holds {n_} individuals')
            self.stale = False
            ctx.probe('table declared panel again')
            ctx.log(kind)
        elif kind == 'SPLIT':
            # folds of a panel table are made of whole individuals (no group column given: the panel column is used)
            k_ = min(a[0], len({r['pid'] for r in self.rows}))
            if k_ < 2:
                ctx.log(kind, 'skip')
            else:
                folds = self.db.split(slices=k_)
                all_tags = sorted(r['tag'] for r in self.rows)
                seen_val = []
                for fi_, fold in enumerate(folds):
                    est_, val_ = fold.estimation, fold.validation
                    ids_e = {float(v) for v in est_['pid'].to_list()}
                    ids_v = {float(v) for v in val_['pid'].to_list()}
                    if ids_e & ids_v:
                        ctx.fail('I09.split', f'fold {fi_} of {k_}: the rows of individual(s) {sorted(ids_e & ids_v)} are spread over '
                                              f'the estimation and the validation part')
                    if sorted([float(t) for t in est_['tag'].to_list()] + [float(t) for t in val_['tag'].to_list()]) != all_tags:
                        ctx.fail('I09.split', f'fold {fi_} of {k_}: estimation and validation parts together are not the table')
                    seen_val += [float(t) for t in val_['tag'].to_list()]
                if sorted(seen_val) != all_tags:
                    ctx.fail('I09.split', f'the validation parts of the {k_} folds together are not the table, each row once')
                ctx.probe('panel table split into folds of whole individuals')
                ctx.log(kind, k_)
        elif kind == 'BOOT_EST':
            # an estimation with bootstrap on the panel object (individuals are resampled), then the likelihood of the
            # SAME object: it must be the one of the estimation data again
            T, k = a
            if self.cfg['template'] == 'expsq' or len({r['pid'] for r in self.rows}) < 2:
                ctx.log(kind, 'skip')   # one-parameter model (observation O3) / a single individual
            else:
                import biogeme.biogeme as bio
                from biogeme.parameters import Parameters
                form = 'mc' if self.uses_draws() else 'traj'
                lform = 'logtraj' if form == 'traj' else 'logmc'
                betas0 = self.betas_at(0)
                # a ridge term (parameters only, so it may sit outside the trajectory) keeps the maximum finite on these
                # tiny samples: without it the estimates diverge and the engine overflows
                import biogeme.expressions as ex
                sp_ = {k_: (v_, None, None, 0) for k_, v_ in betas0.items()}
                rb = ref.Builder(sp_, share_elementary=True)
                # ... and bounds keep the trial points of the optimiser where the engine can evaluate the formula (a
                # trial point far away makes the engine raise, and its error path is not safe with several threads)
                core_ = self.build(lform, betas0, bounds=(-6.0, 6.0))
                pen_names = sorted(ref.collect(self.row_ast(), [])['beta'])
                pen = None
                for n_ in pen_names:
                    t_ = ex.Beta(n_, betas0[n_], -6.0, 6.0, 0)
                    pen = t_ * t_ if pen is None else pen + t_ * t_
                e = core_ - 0.1 * pen
                p = Parameters()
                p.set_value('number_of_threads', T)
                p.set_value('number_of_draws', self.cfg['R'])
                p.set_value('save_iterations', False)
                p.set_value('generate_html', False)
                p.set_value('generate_pickle', False)
                p.set_value('bootstrap_samples', 2)
                p.set_value('max_iterations', 20)
                p.set_value('optimization_algorithm', 'simple_bounds')
                b = bio.BIOGEME(self.db, e, parameters=p)
                b.modelName = 'pan'
                # seam: what the library draws for each replication is recorded
                samples = []
                real_sampler = self.db.sample_individual_map_with_replacement

                def recording_sampler(*a_, **k_):
                    out_ = real_sampler(*a_, **k_)
                    samples.append([float(v_) for v_ in out_.index.to_list()])
                    return out_
                self.db.sample_individual_map_with_replacement = recording_sampler
                try:
                    rb_ = b.estimate(run_bootstrap=True)
                finally:
                    del self.db.sample_individual_map_with_replacement
                if not self.uses_draws() and rb_.algorithm_has_converged() and getattr(b, 'bootstrap_results', None) is not None:
                    # each replication is an estimation on ITS sample of individuals: started at the estimates, it may
                    # not end below its start on that sample, and it cannot stay exactly at the estimates when the
                    # likelihood of its sample is far from stationary there
                    names_ = list(b.free_beta_names)
                    xs = {n_: float(v_) for n_, v_ in rb_.get_beta_values().items()}

                    def ll_of(sample, pt):
                        full = dict(betas0)
                        full.update(pt)
                        per = self.reference(lform, full)
                        return sum(per[i_] for i_ in sample) - len(sample) * 0.1 * sum(full[n_] ** 2 for n_ in pen_names)
                    if len(samples) != len(b.bootstrap_results):
                        ctx.fail('I09.boot', f'{len(b.bootstrap_results)} bootstrap replications for {len(samples)} samples drawn')
                    known = {r_['pid'] for r_ in self.rows}
                    for smp, xb in zip(samples, b.bootstrap_results):
                        if any(i_ not in known for i_ in smp) or len(smp) != len(known):
                            ctx.fail('I09.boot', f'bootstrap sample {smp} is not a sample of the {len(known)} individuals {sorted(known)}')
                        pt = {n_: float(v_) for n_, v_ in zip(names_, xb)}
                        f_at_est, f_at_rep = ll_of(smp, xs), ll_of(smp, pt)
                        if f_at_rep < f_at_est - 1e-7 * max(1.0, abs(f_at_est)):
                            ctx.fail('I09.boot', f'bootstrap replication on individuals {smp} ends at {pt} where the likelihood of '
                                                 f'that sample is {f_at_rep!r}, below its value {f_at_est!r} at the start {xs}')
                        g2 = 0.0
                        for n_ in names_:
                            h_ = 1e-5 * max(1.0, abs(xs[n_]))
                            up, dn = dict(xs), dict(xs)
                            up[n_] += h_
                            dn[n_] -= h_
                            lo_, hi_ = -6.0, 6.0
                            g_ = (ll_of(smp, up) - ll_of(smp, dn)) / (2 * h_)
                            step_ = min(max(xs[n_] + g_, lo_), hi_) - xs[n_]
                            g2 = max(g2, abs(step_) * max(1.0, abs(xs[n_])) / max(1.0, abs(f_at_est)))
                        if g2 > 0.05 and all(pt[n_] == xs[n_] for n_ in names_):
                            ctx.fail('I09.boot', f'bootstrap replication on individuals {smp} returned exactly the estimates '
                                                 f'{xs} although the likelihood of that sample is not stationary there '
                                                 f'(relative projected gradient {g2!r}): the sample was not used')
                        if sorted(smp) != sorted(known):
                            ctx.probe('bootstrap replication on a sample that differs from the data')
                betas = self.betas_at(k)
                want = self.reference(lform, betas)
                x = [betas[n] for n in b.free_beta_names]
                ll = float(b.calculate_likelihood(x, scaled=False))
                tot = sum(want.values()) - len(want) * 0.1 * sum(betas[n_] ** 2 for n_ in pen_names)
                if not ref.close(ll, tot, 1e-10, 1e-12):
                    ctx.fail('I09.boot', f'after estimate(run_bootstrap=True) the log likelihood of the same panel object is {ll!r}, '
                                         f'on the estimation data it is {tot!r}')
                out = b.calculate_likelihood_and_derivatives(x, scaled=False)
                if not ref.close(float(out.function), tot, 1e-10, 1e-12):
                    ctx.fail('I09.boot', f'after estimate(run_bootstrap=True) the log likelihood (with derivatives) of the same panel '
                                         f'object is {float(out.function)!r}, on the estimation data it is {tot!r}')
                ctx.count('fault:bootstrap-resampling-of-individuals')
                self._after_eval(form)
                ctx.log(kind, T, fhex(ll))
        elif kind == 'MAP':
            self.db.build_panel_map()
            self.check_map()
            self.stale = False
            ctx.log(kind)
        elif kind == 'SIZE':
            form = 'mc' if self.uses_draws() else 'traj'
            betas = self.betas_at(0)
            e = self.build(form, betas)
            e.get_value_c(database=self.db, betas=betas, number_of_draws=self.cfg['R'], aggregation=True,
                          prepare_ids=True)
            self._after_eval(form)
            n_ = len({r_['pid'] for r_ in self.rows})
            if int(self.db.getSampleSize()) != n_:
                ctx.fail('I09.size', f'getSampleSize() (old spelling of get_sample_size) = {self.db.getSampleSize()}; the table '
                                     f'holds {n_} individuals')
            ctx.log(kind)
        else:
            raise RuntimeError(kind)
        ctx.state([kind, len(self.rows), len({r['pid'] for r in self.rows}), self.stale])

    def _after_eval(self, form):
        """After any evaluation or construction the map is rebuilt: sample size = individuals,
        every generator call delivered R draws per individual (at least one row per individual)."""
        ctx = self.ctx
        n = len({r['pid'] for r in self.rows})
        if self.db.get_sample_size() != n:
            ctx.fail('I09.size', f'after an evaluation get_sample_size()={self.db.get_sample_size()}, '
                                 f'the table has {n} individuals')
        self.check_map()
        for (s, r) in self.calls:
            if r != self.cfg['R'] or s < n:
                ctx.fail('I09.draws', f'draw generator asked for shape ({s}, {r}); {n} individuals, R={self.cfg["R"]}')
        self.stale = False

    def _memo(self, key, ids, vals):
        d = dict(zip(ids, [float(v) for v in vals]))
        if key in self.memo:
            for ident, v in d.items():
                if not ref.close(v, self.memo[key][ident], 1e-12, 1e-14):
                    self.ctx.fail('I09.order', f'individual {ident}: value {v!r} differs from {self.memo[key][ident]!r} '
                                               f'obtained with another order of individuals / rows')
            self.ctx.count('orders_compared')
        else:
            self.memo[key] = d
