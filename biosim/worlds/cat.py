"""W-cat: catalogs, controllers and neighbourhood operators against a product-space model
(property C16)."""

from __future__ import annotations

import itertools
import random

from .. import ref
from ..core import fhex

name = 'cat'
RAISE_ORACLE = 'I16.raise'
ALTS = ['car', 'sm', 'train']


def _leaf(rng, betas):
    r = rng.random()
    if r < 0.35:
        return ['beta', rng.choice(betas)]
    if r < 0.7:
        return ['var', rng.choice(['x0', 'x1'])]
    return ['num', float(rng.randrange(1, 5))]


def _arith(rng, depth, betas, cats_allowed):
    """Arithmetic AST; ['cat', j] leaves refer to catalogs with index in cats_allowed."""
    if depth <= 0 or rng.random() < 0.3:
        if cats_allowed and rng.random() < 0.5:
            return ['cat', rng.choice(cats_allowed)]
        return _leaf(rng, betas)
    k = rng.choice(['+', '-', '*', '+', 'min', 'max'])
    return [k, _arith(rng, depth - 1, betas, cats_allowed), _arith(rng, depth - 1, betas, cats_allowed)]


def make_config(rng, profile, tier):
    nctrl = rng.randrange(1, 5)
    sizes = [rng.randrange(1, 5) for _ in range(nctrl)]
    betas = ['b0', 'b1', 'b2']
    ncat = rng.randrange(nctrl, nctrl + 3)
    cats = []
    for i in range(ncat):
        ctrl = i if i < nctrl else rng.randrange(nctrl)   # every controller is used; extra catalogs share one
        cats.append({'ctrl': ctrl, 'members': None})
    # members: nested catalogs only with a larger index (no cycles) and a different controller
    for i in range(ncat - 1, -1, -1):
        later = [j for j in range(i + 1, ncat) if cats[j]['ctrl'] != cats[i]['ctrl']]
        cats[i]['members'] = [_arith(rng, rng.randrange(0, 3), betas, later if rng.random() < 0.5 else [])
                              for _ in range(sizes[cats[i]['ctrl']])]
    helpers = rng.choice(['none', 'none', 'seg', 'gas', 'gas_seg'])
    nseg = rng.randrange(0, 3) if helpers in ('seg', 'gas_seg') else 0
    if helpers == 'seg' and nseg == 0:
        nseg = 1
    # catalogs that already sit inside a member of another catalog appear at the top level only half of the
    # time: their controller must then be found through a member that may not be the selected one
    nested = set()

    def scan(n):
        if n[0] == 'cat':
            nested.add(n[1])
        for c_ in n[1:]:
            if isinstance(c_, list) and c_ and isinstance(c_[0], str):
                scan(c_)
    for c_ in cats:
        for m_ in c_['members']:
            scan(m_)
    reach = set()

    def close(i):
        if i in reach:
            return
        reach.add(i)
        for m_ in cats[i]['members']:
            sub = set()
            stack = [m_]
            while stack:
                n = stack.pop()
                if n[0] == 'cat':
                    sub.add(n[1])
                stack += [c2 for c2 in n[1:] if isinstance(c2, list) and c2 and isinstance(c2[0], str)]
            for j in sub:
                close(j)
    tops = [i for i in range(ncat) if i not in nested or rng.random() < 0.5]
    for i in tops:
        close(i)
    for i in range(ncat):
        if i not in reach:
            tops.append(i)
            close(i)
    top_terms = [['cat', i] for i in tops]
    rng.shuffle(top_terms)
    top = top_terms[0]
    for t in top_terms[1:]:
        top = [rng.choice(['+', '-', '*']), top, t] if rng.random() < 0.8 else ['+', ['*', t, ['var', 'x0']], top]
    if helpers in ('seg',):
        top = ['+', top, ['*', ['segcat', 0], ['var', 'x1']]]
        if rng.random() < 0.5:
            top = ['+', top, ['*', ['segcat', 1], ['var', 'x0']]]
    if helpers in ('gas', 'gas_seg'):
        for alt in rng.sample(ALTS, rng.randrange(2, 4)):
            top = ['+', top, ['*', ['gascat', 0, alt], ['var', 'x0']]]
        if rng.random() < 0.5:
            top = ['+', top, ['*', ['gascat', 1, rng.choice(ALTS)], ['var', 'x1']]]
    return {'sizes': sizes, 'cats': cats, 'top': top, 'helpers': helpers, 'nseg': nseg,
            'max_seg': rng.choice([1, 2, 5]), 'data_seed': rng.randrange(1 << 30),
            'ctrl_style': rng.choice(['plain', 'plain', 'case', 'pad']), 'seg_many': rng.random() < 0.4,
            'seg_ref': rng.random() < 0.4, 'names_as_iterator': rng.random() < 0.3}


def make_ops(rng, cfg, profile, tier):
    ops = []
    for _ in range(rng.randrange(4, 22)):
        r = rng.random()
        if r < 0.13:
            ops.append({'op': 'CONFIGURE', 'a': [rng.randrange(1 << 30), rng.randrange(1 << 30)]})
        elif r < 0.16:
            ops.append({'op': 'RECONFIGURE', 'a': [rng.randrange(1 << 30), rng.randrange(64), rng.randrange(1, 4)]})
        elif r < 0.28:
            ops.append({'op': 'SELECT', 'a': [rng.randrange(64), rng.randrange(-1, 6)]})
        elif r < 0.5:
            ops.append({'op': 'OP', 'a': [rng.randrange(1 << 16), rng.choice([1, 1, 2, 3, 4, 5, 7])]})
        elif r < 0.6:
            ops.append({'op': 'INC_DEC', 'a': [rng.randrange(64), rng.choice([1, 2, 3, 4, 5, 9]), rng.random() < 0.5]})
        elif r < 0.64:
            ops.append({'op': 'ITERATE', 'a': []})
        elif r < 0.68:
            ops.append({'op': 'ITERATE_SELECTED', 'a': [rng.randrange(1 << 30), rng.randrange(1, 5)]})
        elif r < 0.76:
            ops.append({'op': 'FROM_STRING', 'a': [rng.randrange(1 << 30), rng.randrange(1 << 30)]})
        elif r < 0.88:
            ops.append({'op': 'EVAL', 'a': [rng.randrange(4)]})
        elif r < 0.90:
            ops.append({'op': 'BAD_CATALOG', 'a': [rng.randrange(64), rng.randrange(1 << 16)]})
        elif r < 0.92:
            ops.append({'op': 'CENTRAL_MAX', 'a': []})
        elif r < 0.93:
            ops.append({'op': 'LATE_ATTACH', 'a': [rng.randrange(3), [rng.randrange(3) for _ in range(rng.randrange(2, 6))]]})
        elif r < 0.937:
            ops.append({'op': 'REUSE_PIECE', 'a': [rng.randrange(3), rng.randrange(2)]})
        elif r < 0.94:
            ops.append({'op': 'SHARED_WITH_CATALOG', 'a': [rng.randrange(4)]})
        else:
            ops.append({'op': 'BIOGEME', 'a': [rng.randrange(1 << 30)]})
    return ops


def died_is_outcome(spec, res):
    return False


def pinned_ops(spec):
    return set()


def simplifications(spec):
    return []


def nontrivial(spec, res):
    c = res.get('counters', {})
    return len(spec['config']['sizes']) >= 2 and (c.get('op:OP', 0) + c.get('op:INC_DEC', 0)) >= 3


class Session:
    def __init__(self, ctx):
        from .. import env
        env.import_library()
        import numpy as np
        import pandas as pd
        import biogeme.database as db
        self.np = np
        self.ctx = ctx
        self.cfg = ctx.config
        rng = random.Random(self.cfg['data_seed'])
        self.table = pd.DataFrame({
            'x0': [round(rng.uniform(-2, 2), 2) for _ in range(3)],
            'x1': [round(rng.uniform(-2, 2), 2) for _ in range(3)],
            's0': [1.0, 2.0, 3.0], 's1': [0.0, 1.0, 1.0], 'tag': [0.0, 1.0, 2.0]})
        self.rows = [{c: float(self.table[c].iloc[i]) for c in self.table.columns} for i in range(3)]
        self.db = db.Database('c', self.table.copy())
        self.build()
        if any(sum(1 for c in self.cfg['cats'] if c['ctrl'] == k) >= 2 for k in range(len(self.cfg['sizes']))):
            ctx.probe('shared controller')
        if self.cfg['helpers'] != 'none':
            ctx.probe('helper-generated catalogs')

    # -- construction of the real expression and of the model space ---------------------------
    def build(self):
        import biogeme.expressions as ex
        from biogeme.catalog import Catalog, segmentation_catalogs, generic_alt_specific_catalogs
        from biogeme.controller import Controller
        from biogeme.segmentation import DiscreteSegmentationTuple
        cfg = self.cfg
        self.beta_objs = {}
        self.var_objs = {}
        # controller names: plain, or names that differ only by the case of their letters (legal, distinct names)
        self._cn = ([f'k{i}' for i in range(len(cfg['sizes']))] if cfg.get('ctrl_style', 'plain') == 'plain'
                    else ['Cost', 'cost', 'COST', 'cOst'][:len(cfg['sizes'])])
        self.ctrl_names = list(self._cn)
        if cfg.get('ctrl_style') == 'pad':
            # names padded with blanks to a common width (free strings: only the two separators are reserved)
            self._cn = [f'k{i}' + ' ' * (i % 2) for i in range(len(cfg['sizes']))]
            self.ctrl_names = list(self._cn)
        pad_ = (lambda j: ' ' * (j % 2)) if cfg.get('ctrl_style') == 'pad' else (lambda j: '')
        self.member_names = {self._cn[i]: [(' ' if pad_(j) and i % 2 else '') + f'm{j}' + ('' if i % 2 else pad_(j))
                                           for j in range(s)] for i, s in enumerate(cfg['sizes'])}
        # the names of the alternatives of a controller: a list, or any one-shot iterable (the signature says Iterable)
        as_it = (lambda l_: iter(list(l_))) if cfg.get('names_as_iterator') else (lambda l_: l_)
        self.controllers = {nm: Controller(nm, as_it(self.member_names[nm])) for nm in self.ctrl_names}
        self.catalogs = {}
        self.values = {'b0': 0.7, 'b1': -1.3, 'b2': 0.45}
        # helpers
        self.segs = []
        if cfg['nseg'] >= 1:
            # several values of the variable may share one category (and so one parameter)
            self.segs.append(('s0', {1: 'low', 2: 'mid', 3: 'mid'} if cfg.get('seg_many') else {1: 'low', 2: 'mid', 3: 'high'}))
        if cfg['nseg'] >= 2:
            self.segs.append(('s1', {0: 'no', 1: 'yes'}))
        # reference category: the first one by default, or one named explicitly (buggify)
        self.seg_refs = {}
        for v_, m_ in self.segs:
            cats_ = list(dict.fromkeys(m_.values()))
            self.seg_refs[v_] = cats_[0] if not cfg.get('seg_ref') else cats_[-1]
        self.seg_tuples = tuple(DiscreteSegmentationTuple(variable=v, mapping=m, reference=(self.seg_refs[v] if cfg.get('seg_ref') else None))
                                for v, m in self.segs)
        # starting values of the coefficients handed to the helpers: everything the helpers derive from a coefficient
        # (alternative-specific versions, category-specific terms) starts at the coefficient's own starting value
        self.helper_starts = {'hb0': 0.3, 'hb1': -0.6}
        self.helper_betas = [ex.Beta('hb0', self.helper_starts['hb0'], None, None, 0),
                             ex.Beta('hb1', self.helper_starts['hb1'], None, None, 0)]
        self.segcats = None
        self.gascats = None
        if cfg['helpers'] == 'seg':
            self.segcats = segmentation_catalogs('segm', self.helper_betas, self.seg_tuples, cfg['max_seg'])
        elif cfg['helpers'] in ('gas', 'gas_seg'):
            self.gascats = generic_alt_specific_catalogs('gen', self.helper_betas, tuple(ALTS),
                                                         self.seg_tuples if self.seg_tuples else None,
                                                         maximum_number=cfg['max_seg'])
        # helper controllers and their member names (documented naming)
        combos = [c for c in itertools.product([False, True], repeat=len(self.segs)) if sum(c) <= cfg['max_seg']]
        self.combos = combos
        seg_names = ['no_seg' if not any(c) else '-'.join(self.segs[i][0] for i, k in enumerate(c) if k)
                     for c in combos]
        if cfg['helpers'] == 'seg':
            self.member_names['segm'] = seg_names
            self.ctrl_names.append('segm')
        if cfg['helpers'] in ('gas', 'gas_seg'):
            self.member_names['gen_gen_altspec'] = ['generic', 'altspec']
            self.ctrl_names.append('gen_gen_altspec')
            if self.seg_tuples:
                self.member_names['gen'] = seg_names
                self.ctrl_names.append('gen')
        for pname in ('hb0', 'hb1'):
            self.values[pname] = {'hb0': 0.3, 'hb1': -0.6}[pname]
            for alt in ALTS:
                self.values[f'{pname}_{alt}'] = round(0.11 * (ALTS.index(alt) + 1) + (0.5 if pname == 'hb1' else 0), 3)
        for base in list(self.values):
            if base.startswith('hb'):
                for v, m in self.segs:
                    for key, cat in m.items():
                        if cat == self.seg_refs[v]:
                            continue
                        self.values[f'{base}_{cat}'] = round(0.07 * key + 0.013 * len(base) + (0.2 if v == 's1' else 0), 4)
        self.expr = self._build(cfg['top'])
        self.used_ctrls = sorted(self._used(cfg['top'], set()))
        self.model = {c: 0 for c in self.used_ctrls}

    def _used(self, n, acc):
        k = n[0]
        if k == 'cat':
            c = self.cfg['cats'][n[1]]
            acc.add(self._cn[c['ctrl']])
            for m in c['members']:
                self._used(m, acc)
        elif k == 'segcat':
            acc.add('segm')
        elif k == 'gascat':
            acc.add('gen_gen_altspec')
            if self.seg_tuples:
                acc.add('gen')
        else:
            for c in n[1:]:
                if isinstance(c, list) and c and isinstance(c[0], str):
                    self._used(c, acc)
        return acc

    def _build(self, n):
        import biogeme.expressions as ex
        from biogeme.catalog import Catalog
        from biogeme.expressions import NamedExpression
        k = n[0]
        if k == 'cat':
            i = n[1]
            if i not in self.catalogs:
                c = self.cfg['cats'][i]
                cn = self._cn[c['ctrl']]
                named = [NamedExpression(name=mn, expression=self._build(m))
                         for mn, m in zip(self.member_names[cn], c['members'])]
                self.catalogs[i] = Catalog(f'cat{i}', named, controlled_by=self.controllers[cn])
                if any(self._has_cat(m) for m in c['members']):
                    self.ctx.probe('nested catalog')
            return self.catalogs[i]
        if k == 'segcat':
            return self.segcats[n[1]]
        if k == 'gascat':
            return self.gascats[n[1]][n[2]]
        if k == 'beta':
            if n[1] not in self.beta_objs:
                self.beta_objs[n[1]] = ex.Beta(n[1], 0.0, None, None, 0)
            return self.beta_objs[n[1]]
        if k == 'var':
            if n[1] not in self.var_objs:
                self.var_objs[n[1]] = ex.Variable(n[1])
            return self.var_objs[n[1]]
        if k == 'num':
            return ex.Numeric(n[1])
        a, b = self._build(n[1]), self._build(n[2])
        return {'+': lambda: a + b, '-': lambda: a - b, '*': lambda: a * b,
                'min': lambda: ex.bioMin(a, b), 'max': lambda: ex.bioMax(a, b)}[k]()

    def _has_cat(self, n):
        if n[0] in ('cat',):
            return True
        return any(isinstance(c, list) and c and isinstance(c[0], str) and self._has_cat(c) for c in n[1:])

    # -- model --------------------------------------------------------------------------------
    def product_ids(self):
        lists = [[(c, m) for m in self.member_names[c]] for c in self.used_ctrls]
        return {';'.join(f'{c}:{m}' for c, m in sorted(combo)) for combo in itertools.product(*lists)}

    def model_id(self, model=None):
        model = model or self.model
        return ';'.join(f'{c}:{m}' for c, m in sorted((c, self.member_names[c][i]) for c, i in model.items()))

    def hand(self, n, model):
        """The formula written out by hand for the selections of `model` (plain AST)."""
        k = n[0]
        if k == 'cat':
            c = self.cfg['cats'][n[1]]
            return self.hand(c['members'][model[self._cn[c['ctrl']]]], model)
        if k == 'segcat':
            return self._seg_ast(f'hb{n[1]}', self.combos[model['segm']])
        if k == 'gascat':
            base = f'hb{n[1]}'
            pname = base if model['gen_gen_altspec'] == 0 else f'{base}_{n[2]}'
            if self.seg_tuples:
                return self._seg_ast(pname, self.combos[model['gen']])
            return ['beta', pname]
        if k in ('beta', 'var', 'num'):
            return n
        return [k] + [self.hand(c, model) for c in n[1:]]

    def _seg_ast(self, pname, combo):
        terms = [['beta', pname]]
        for (v, m), keep in zip(self.segs, combo):
            if keep:
                for key, cat in m.items():
                    if cat == self.seg_refs[v]:
                        continue        # the reference category has no term of its own
                    terms.append(['*', ['beta', f'{pname}_{cat}'], ['==', ['var', v], ['num', float(key)]]])
        if len(terms) == 1:
            return terms[0]
        return ['multsum', terms]

    def ref_values(self, model, scale):
        ast = self.hand(self.cfg['top'], model)
        vals = {k: v * scale for k, v in self.values.items()}
        return [ref.ev(ast, ref.Env(r, vals)) for r in self.rows], ast, vals

    # -- checks -------------------------------------------------------------------------------------
    def check_state(self, after):
        ctx = self.ctx
        cur = self.expr.current_configuration().get_string_id()
        if cur != self.model_id():
            ctx.fail('I16.state', f'after {after}: current configuration is [{cur}], the model says [{self.model_id()}]')
        for i, cat in self.catalogs.items():
            c = self.cfg['cats'][i]
            cn = self._cn[c['ctrl']]
            if cn in self.model:
                want = self.member_names[cn][self.model[cn]]
                if cat.selected_name() != want:
                    ctx.fail('I16.sync', f'after {after}: catalog cat{i} (controller {cn}) shows {cat.selected_name()}, '
                                         f'the controller selection is {want}')

    def eval_engine(self, expr, vals):
        try:
            out = expr.get_value_c(database=self.db, betas=vals, aggregation=False, prepare_ids=True)
        except Exception as e:
            from ..core import _classify_exception
            where, text = _classify_exception(e)
            if where == 'harness':
                raise
            self.ctx.fail('I16.eval', f'evaluating the formula configured as [{self.model_id()}] raised '
                                      f'{type(e).__name__}: {str(e)[:200]}')
        return [float(v) for v in out]

    def apply(self, i, op):
        ctx = self.ctx
        kind, a = op['op'], op['a']
        ctx.count('op:' + kind)
        from biogeme.configuration import Configuration
        from biogeme.exceptions import BiogemeError
        if kind == 'CONFIGURE':
            rng = random.Random(a[0])
            target = {c: rng.randrange(len(self.member_names[c])) for c in self.used_ctrls}
            terms = [f'{c}:{self.member_names[c][k]}' for c, k in target.items()]
            random.Random(a[1]).shuffle(terms)
            the_id = ';'.join(terms)
            self.expr.configure_catalogs(Configuration.from_string(the_id))
            self.model = target
            self.check_state(kind)
            ctx.log(kind, the_id)
        elif kind == 'RECONFIGURE':
            # the same configuration requested twice with a move of one controller in between
            rng = random.Random(a[0])
            target = {c: rng.randrange(len(self.member_names[c])) for c in self.used_ctrls}
            the_id = self.model_id(target)
            self.expr.configure_catalogs(Configuration.from_string(the_id))
            self.model = dict(target)
            self.check_state(kind)
            c = self.used_ctrls[a[1] % len(self.used_ctrls)]
            idx = (target[c] + a[2]) % len(self.member_names[c])
            self.expr.select_expression(c, idx)
            self.model[c] = idx
            self.check_state(kind)
            self.expr.configure_catalogs(Configuration.from_string(the_id))
            self.model = dict(target)
            self.check_state(f'{kind} (second request of the same configuration)')
            ctx.log(kind, the_id)
        elif kind == 'BAD_CATALOG':
            # a catalog listing the alternatives of a shared controller in another order would silently take the wrong
            # alternative: it must be refused
            import biogeme.expressions as ex
            from biogeme.catalog import Catalog
            from biogeme.expressions import NamedExpression
            cn = [c for c in self.used_ctrls if c in self.controllers]
            c = cn[a[0] % len(cn)]
            names = list(self.member_names[c])
            perm = list(names)
            random.Random(a[1]).shuffle(perm)
            if perm == names:
                perm = names[::-1]
            if perm == names:
                ctx.log(kind, 'skip-size-1')
            else:
                named = [NamedExpression(name=n_, expression=ex.Numeric(float(j))) for j, n_ in enumerate(perm)]
                try:
                    Catalog('bad_order', named, controlled_by=self.controllers[c])
                except BiogemeError:
                    ctx.count('refused')
                else:
                    ctx.fail('I16.refuse', f'a catalog listing the alternatives of controller {c} as {perm} (the controller has '
                                           f'{names}) was accepted')
                ctx.log(kind, c)
        elif kind == 'SHARED_WITH_CATALOG':
            # two models on one table share parameter objects; the first model holds a catalog, the second one numbers the
            # shared parameters differently; the first model goes on evaluating like the formula written by hand
            import biogeme.biogeme as bio
            import biogeme.expressions as ex
            from biogeme.catalog import Catalog
            from biogeme.parameters import Parameters
            order = a[0]
            sb = ex.Beta('swc_b', 0.1, None, None, 0)
            sc = ex.Beta('swc_c', 0.2, None, None, 0)
            sa = ex.Beta('swc_a', 0.3, None, None, 0)
            x0 = ex.Variable('x0')
            cat = Catalog.from_dict('swc_shape', {'lin': sb * x0, 'sq': sb * x0 * x0})
            f1 = cat + sc
            f2 = sa * 3.0 - sb * x0
            v1 = {'swc_b': 0.75, 'swc_c': -1.5}

            def obj(f):
                p = Parameters()
                p.set_value('save_iterations', False)
                return bio.BIOGEME(self.db, {'p': f}, parameters=p)
            # (the configuration is chosen BEFORE the object is built: an existing object is a snapshot of its formulas, the
            # engine keeps the nodes it has seen - changing the selection afterwards is what from_configuration is for)
            sel_, pw_ = (('lin', 1), ('sq', 2))[order % 2]
            f1.configure_catalogs(Configuration.from_string(f'swc_shape:{sel_}'))
            b1 = obj(f1)
            obj(f2)
            for round_ in (1, 2):
                got = [float(v) for v in b1.simulate({k_: v1[k_] for k_ in sorted(v1, reverse=bool(order >= 2))})['p'].to_list()]
                for g_, r_ in zip(got, self.rows):
                    w_ = v1['swc_b'] * r_['x0'] ** pw_ + v1['swc_c']
                    if not ref.close(g_, w_, 1e-12, 1e-13):
                        ctx.fail('I16.value', f'model with a catalog (swc_shape:{sel_}) simulated after a second model sharing one of '
                                              f'its parameters was built: {g_!r}, written by hand {w_!r}')
            ctx.probe('model with a catalog sharing a parameter with another model')
            ctx.log(kind, order)
        elif kind == 'REUSE_PIECE':
            # a formula with two catalogs (two controllers) is enumerated and configured; one of its catalogs is then reused
            # in a second formula that has nothing to do with the other controller: the second formula has the
            # configurations of ITS controller only
            from biogeme.catalog import Catalog
            from biogeme.controller import Controller
            import biogeme.expressions as ex
            sel_a, sel_b = a
            ca = Controller('reuse_a', ['lin', 'sq', 'cub'])
            cb = Controller('reuse_b', ['one', 'two'])
            x0, x1 = ex.Variable('x0'), ex.Variable('x1')
            cat_a = Catalog('reuse_cat_a', [ex.NamedExpression('lin', x0), ex.NamedExpression('sq', x0 * x0),
                                            ex.NamedExpression('cub', x0 * x0 * x0)], controlled_by=ca)
            cat_b = Catalog('reuse_cat_b', [ex.NamedExpression('one', x1), ex.NamedExpression('two', 2.0 * x1)], controlled_by=cb)
            f1 = cat_a + cat_b
            ids1 = {c_.get_string_id() for c_ in f1.set_of_configurations()}
            if len(ids1) != 6:
                ctx.fail('I16.product', f'first formula (3 x 2 alternatives) has {len(ids1)} configurations: {sorted(ids1)}')
            f1.configure_catalogs(Configuration.from_string(f"reuse_a:{['lin', 'sq', 'cub'][sel_a]};reuse_b:{['one', 'two'][sel_b]}"))
            f2 = 2.0 * cat_a + 1.0
            n2 = f2.number_of_multiple_expressions()
            ids2 = {c_.get_string_id() for c_ in f2.set_of_configurations()}
            want2 = {f'reuse_a:{m_}' for m_ in ('lin', 'sq', 'cub')}
            if n2 != 3 or ids2 != want2:
                ctx.fail('I16.product', f'a formula that reuses one catalog of an already configured formula reports {n2} '
                                        f'configurations {sorted(ids2)}; it holds one catalog of 3 alternatives: {sorted(want2)}')
            pw = {'lin': 1, 'sq': 2, 'cub': 3}
            visited = []
            for e_ in f2:
                visited.append(f2.current_configuration().get_string_id())
            if sorted(visited) != sorted(want2):
                ctx.fail('I16.iter', f'iteration over the second formula visits {visited}, its configurations are {sorted(want2)}')
            for m_ in ('cub', 'lin'):
                f2.configure_catalogs(Configuration.from_string(f'reuse_a:{m_}'))
                got = [float(v) for v in f2.get_value_c(database=self.db, prepare_ids=True)]
                for g_, r_ in zip(got, self.rows):
                    if not ref.close(g_, 2.0 * r_['x0'] ** pw[m_] + 1.0, 1e-12, 1e-13):
                        ctx.fail('I16.eval', f'second formula on reuse_a:{m_} evaluates to {g_!r}')
            ctx.probe('catalog of a configured formula reused in another formula')
            ctx.log(kind, sel_a, sel_b)
        elif kind == 'LATE_ATTACH':
            # a catalog attached to a controller that has ALREADY been used and moved by an earlier formula: from then on
            # both catalogs follow the controller, starting with the selection in force when the second one is attached
            from biogeme.catalog import Catalog
            from biogeme.controller import Controller
            import biogeme.expressions as ex
            first, seq = a
            alts = ['lin', 'sq', 'cub']
            ctl = Controller('late_shape', alts)
            x0, x1 = ex.Variable('x0'), ex.Variable('x1')
            bx = ex.Beta('late_bx', 0.5, None, None, 0)
            bz = ex.Beta('late_bz', -0.25, None, None, 0)

            def members(v):
                return [ex.NamedExpression('lin', v), ex.NamedExpression('sq', v * v), ex.NamedExpression('cub', v * v * v)]
            cat_x = Catalog('late_cat_x', members(x0), controlled_by=ctl)
            m1 = bx * cat_x
            m1.configure_catalogs(Configuration.from_string(f'late_shape:{alts[first]}'))
            pw = {'lin': 1, 'sq': 2, 'cub': 3}
            got = [float(v) for v in m1.get_value_c(database=self.db, prepare_ids=True)]
            for g_, r_ in zip(got, self.rows):
                if not ref.close(g_, 0.5 * r_['x0'] ** pw[alts[first]], 1e-12, 1e-13):
                    ctx.fail('I16.eval', f'first formula on late_shape:{alts[first]}: {g_!r}')
            cat_z = Catalog('late_cat_z', members(x1), controlled_by=ctl)
            m2 = bx * cat_x + bz * cat_z
            for j_, idx in enumerate([first] + list(seq)):
                nm_ = alts[idx]
                conf = Configuration.from_string(f'late_shape:{nm_}')
                if j_ > 0 or first != 0:
                    m2.configure_catalogs(conf)
                sel = (cat_x.selected_name(), cat_z.selected_name())
                if sel != (nm_, nm_):
                    ctx.fail('I16.select', f'controller late_shape on {nm_} (step {j_} of {[first] + list(seq)}): its two catalogs '
                                           f'select {sel}; the second one was attached after the controller had been moved')
                if m2.current_configuration().get_string_id() != conf.get_string_id():
                    ctx.fail('I16.select', f'{conf.get_string_id()} selected, {m2.current_configuration().get_string_id()} reported')
                got = [float(v) for v in m2.get_value_c(database=self.db, prepare_ids=True)]
                for g_, r_ in zip(got, self.rows):
                    w_ = 0.5 * r_['x0'] ** pw[nm_] - 0.25 * r_['x1'] ** pw[nm_]
                    if not ref.close(g_, w_, 1e-12, 1e-13):
                        ctx.fail('I16.eval', f'late_shape:{nm_} (step {j_} of {[first] + list(seq)}): the formula evaluates to {g_!r}, '
                                             f'written by hand it gives {w_!r}')
            ctx.probe('catalog attached to a controller already in use')
            ctx.log(kind, first, seq)
        elif kind == 'CENTRAL_MAX':
            from biogeme.controller import CentralController
            want = self.product_ids()
            cc = CentralController(self.expr, maximum_number_of_configurations=len(want))
            if cc.all_configurations is None or {c_.get_string_id() for c_ in cc.all_configurations} != want:
                ctx.fail('I16.product', f'a central controller allowed {len(want)} configurations does not enumerate the '
                                        f'{len(want)} combinations of the formula')
            if cc.number_of_configurations() != len(want):
                ctx.fail('I16.product', f'number_of_configurations()={cc.number_of_configurations()} for {len(want)} combinations')
            ctx.log(kind, len(want))
        elif kind == 'SELECT':
            c = self.used_ctrls[a[0] % len(self.used_ctrls)]
            idx = a[1]
            if 0 <= idx < len(self.member_names[c]):
                self.expr.select_expression(c, idx)
                self.model[c] = idx
            else:
                try:
                    self.expr.select_expression(c, idx)
                except BiogemeError:
                    ctx.count('refused')
                else:
                    ctx.fail('I16.refuse', f'select_expression({c}, {idx}) accepted; size {len(self.member_names[c])}')
            self.check_state(kind)
            ctx.log(kind, c, idx)
        elif kind == 'OP':
            self.expr.current_configuration()
            cc = self.expr.central_controller
            ops = cc.prepare_operators()
            names = sorted(ops)
            nm = names[a[0] % len(names)]
            step = a[1]
            start_model = dict(self.model)
            if a[0] % 2:
                # the operator is given a configuration that is not the one the formula currently shows
                srng = random.Random(a[0])
                start_model = {c: srng.randrange(len(self.member_names[c])) for c in self.used_ctrls}
                ctx.probe('operator applied to a configuration other than the current one')
            start = Configuration.from_string(self.model_id(start_model))
            self.model = start_model
            random.seed(a[0])
            new, n = ops[nm](start, step)
            nid = new.get_string_id()
            if nid not in self.product_ids():
                ctx.fail('I16.closure', f'operator {nm} (step {step}) returned [{nid}], not a configuration of the formula')
            exp = dict(self.model)
            sz = lambda c: len(self.member_names[c])
            if nm.startswith('Increase ') or nm.startswith('Decrease '):
                c = nm.split(' ', 1)[1]
                sign = 1 if nm.startswith('Increase') else -1
                exp[c] = (exp[c] + sign * step) % sz(c)
                if step >= sz(c):
                    ctx.probe('step >= controller size')
                if nid != self.model_id(exp):
                    ctx.fail('I16.op', f'operator {nm} with step {step} from [{self.model_id()}] gave [{nid}], '
                                       f'expected [{self.model_id(exp)}]')
            elif nm.startswith('Pair_'):
                rest = nm[len('Pair_'):]
                direction = rest[-2:]
                body = rest[:-3]
                pair = [(c1, c2) for c1 in self.used_ctrls for c2 in self.used_ctrls
                        if c1 != c2 and f'{c1}_{c2}' == body]
                if len(pair) == 1:
                    c1, c2 = pair[0]
                    exp[c1] = (exp[c1] + (step if direction[1] == 'E' else -step)) % sz(c1)
                    exp[c2] = (exp[c2] + (step if direction[0] == 'N' else -step)) % sz(c2)
                    if nid != self.model_id(exp):
                        ctx.fail('I16.op', f'operator {nm} with step {step} from [{self.model_id()}] gave [{nid}], '
                                           f'expected [{self.model_id(exp)}]')
            # the operator leaves the formula configured as the configuration it returns
            self.model = {t.split(':')[0]: self.member_names[t.split(':')[0]].index(t.split(':')[1])
                          for t in nid.split(';')}
            self.check_state(f'operator {nm}')
            ctx.log(kind, nm, step, nid)
        elif kind == 'INC_DEC':
            self.expr.current_configuration()
            cc = self.expr.central_controller
            ops = cc.prepare_operators()
            c = self.used_ctrls[a[0] % len(self.used_ctrls)]
            step = a[1]
            first, second = ('Increase', 'Decrease') if a[2] else ('Decrease', 'Increase')
            start = Configuration.from_string(self.model_id())
            mid, _ = ops[f'{first} {c}'](start, step)
            back, _ = ops[f'{second} {c}'](mid, step)
            if back.get_string_id() != self.model_id():
                ctx.fail('I16.inverse', f'{first} then {second} {c} by {step} from [{self.model_id()}] ends at '
                                        f'[{back.get_string_id()}] (via [{mid.get_string_id()}])')
            if step >= len(self.member_names[c]):
                ctx.probe('step >= controller size')
            self.check_state(kind)
            ctx.log(kind, c, step)
        elif kind == 'ITERATE':
            want = self.product_ids()
            confs = self.expr.set_of_configurations()
            if confs is None:
                # documented: above maximum_number_catalog_expressions (100) the set is not enumerated
                if len(want) <= 100:
                    ctx.fail('I16.product', f'set_of_configurations() is None for {len(want)} combinations')
                if self.expr.number_of_multiple_expressions() != len(want):
                    ctx.fail('I16.product', f'number_of_multiple_expressions()={self.expr.number_of_multiple_expressions()} '
                                            f'for {len(want)} combinations')
                ctx.probe('more than 100 configurations (not enumerated)')
                ctx.log(kind, 'too-many', len(want))
                ctx.state([kind, sorted(self.model.items())])
                return
            got_set = {c.get_string_id() for c in confs}
            if got_set != want:
                ctx.fail('I16.product', f'set_of_configurations() has {len(got_set)} elements, the product of the '
                                        f'controllers has {len(want)}: missing {sorted(want - got_set)[:3]}, '
                                        f'extra {sorted(got_set - want)[:3]}')
            if self.expr.number_of_multiple_expressions() != len(want):
                ctx.fail('I16.product', f'number_of_multiple_expressions()={self.expr.number_of_multiple_expressions()} '
                                        f'for {len(want)} combinations')
            seen = []
            for e in self.expr:
                seen.append(e.current_configuration().get_string_id())
            if sorted(seen) != sorted(want):
                ctx.fail('I16.iterate', f'iteration visited {len(seen)} configurations ({len(set(seen))} distinct) '
                                        f'of {len(want)}')
            last = seen[-1]
            self.model = {t.split(':')[0]: self.member_names[t.split(':')[0]].index(t.split(':')[1])
                          for t in last.split(';')}
            self.check_state(kind)
            # the visiting order is the iteration order of a set (hash dependent): continue from a
            # canonical configuration so that the rest of the session does not depend on it
            first = min(seen)
            self.expr.configure_catalogs(Configuration.from_string(first))
            self.model = {t.split(':')[0]: self.member_names[t.split(':')[0]].index(t.split(':')[1])
                          for t in first.split(';')}
            ctx.log(kind, len(seen))
        elif kind == 'ITERATE_SELECTED':
            from biogeme.expressions import SelectedExpressionsIterator
            rng = random.Random(a[0])
            allc = sorted(self.product_ids())
            chosen = rng.sample(allc, min(a[1], len(allc)))
            confs = {Configuration.from_string(c) for c in chosen}
            seen = []
            for e in SelectedExpressionsIterator(self.expr, confs):
                cid = e.current_configuration().get_string_id()
                seen.append(cid)
                model = {t.split(':')[0]: self.member_names[t.split(':')[0]].index(t.split(':')[1]) for t in cid.split(';')}
                self.model = model
                self.check_state(kind)
            if sorted(seen) != sorted(chosen):
                ctx.fail('I16.iterate', f'iteration over {len(chosen)} selected configurations visited {seen}')
            first = min(seen)
            self.expr.configure_catalogs(Configuration.from_string(first))
            self.model = {t.split(':')[0]: self.member_names[t.split(':')[0]].index(t.split(':')[1])
                          for t in first.split(';')}
            ctx.log(kind, len(seen))
        elif kind == 'FROM_STRING':
            rng = random.Random(a[0])
            target = {c: rng.randrange(len(self.member_names[c])) for c in self.used_ctrls}
            terms = [f'{c}:{self.member_names[c][k]}' for c, k in target.items()]
            t1 = list(terms)
            random.Random(a[1]).shuffle(t1)
            c0 = Configuration.from_string(';'.join(terms))
            c1 = Configuration.from_string(';'.join(t1))
            canon = self.model_id(target)
            if c0.get_string_id() != c1.get_string_id() or not (c0 == c1) or hash(c0) != hash(c1):
                ctx.fail('I16.id', f'the same choices listed in two orders give [{c0.get_string_id()}] and [{c1.get_string_id()}]')
            if Configuration.from_string(c0.get_string_id()).get_string_id() != c0.get_string_id():
                ctx.fail('I16.id', f'[{c0.get_string_id()}] does not convert back to itself')
            if sorted(c0.get_string_id().split(';')) != sorted(terms):
                ctx.fail('I16.id', f'identifier [{c0.get_string_id()}] does not carry the choices {sorted(terms)}')
            other = dict(target)
            oc = self.used_ctrls[a[1] % len(self.used_ctrls)]
            if len(self.member_names[oc]) > 1:
                other[oc] = (other[oc] + 1) % len(self.member_names[oc])
                o = Configuration.from_string(self.model_id(other))
                if o.get_string_id() == c0.get_string_id() or o == c0:
                    ctx.fail('I16.id', 'two different configurations share one identifier')
            for sel_c, sel_k in target.items():
                if c0.get_selection(sel_c) != self.member_names[sel_c][sel_k]:
                    ctx.fail('I16.id', f'get_selection({sel_c}) = {c0.get_selection(sel_c)}')
            ctx.log(kind, canon)
        elif kind == 'EVAL':
            scale = 1.0 + 0.5 * a[0]
            want, ast, vals = self.ref_values(self.model, scale)
            got = self.eval_engine(self.expr, vals)
            for r, (g, w) in enumerate(zip(got, want)):
                if not ref.close(g, w, 1e-12, 1e-13):
                    ctx.fail('I16.value', f'configured formula [{self.model_id()}] evaluates to {g!r} on row {r}, '
                                          f'the formula written out by hand gives {w!r}')
            b = ref.Builder({k: (0.0, None, None, 0) for k in vals})
            hand_expr = b.build(ast)
            used = {k: v for k, v in vals.items()}
            got2 = self.eval_engine(hand_expr, used)
            for r, (g, w) in enumerate(zip(got, got2)):
                if not ref.close(g, w, 1e-12, 1e-13):
                    ctx.fail('I16.value', f'configured formula [{self.model_id()}] evaluates to {g!r} on row {r}, the '
                                          f'hand-written biogeme formula to {w!r}')
            # ... and at the starting values (no dictionary given): the formula written out by hand, every parameter at the
            # starting value the documentation gives it
            starts = {k_: (self.helper_starts['hb0'] if k_.startswith('hb0') else self.helper_starts['hb1'] if k_.startswith('hb1')
                           else 0.0) for k_ in vals}
            got0 = self.eval_engine(self.expr, None)
            want0 = [ref.ev(ast, ref.Env(r_, starts)) for r_ in self.rows]
            for r, (g, w) in enumerate(zip(got0, want0)):
                if not ref.close(g, w, 1e-12, 1e-13):
                    ctx.fail('I16.value', f'configured formula [{self.model_id()}] at its starting values evaluates to {g!r} on row '
                                          f'{r}, the formula written out by hand with the documented starting values gives {w!r}')
            self.check_state(kind)
            ctx.log(kind, [fhex(v) for v in got])
        elif kind == 'BIOGEME':
            import biogeme.biogeme as bio
            from biogeme.parameters import Parameters
            rng = random.Random(a[0])
            target = {c: rng.randrange(len(self.member_names[c])) for c in self.used_ctrls}
            the_id = self.model_id(target)
            p = Parameters()
            p.set_value('save_iterations', False)
            b = bio.BIOGEME.from_configuration(config_id=the_id, expression=self.expr, database=self.db, parameters=p)
            self.model = target
            self.check_state(kind)
            want, ast, vals = self.ref_values(self.model, 1.0)
            names = b.free_beta_names
            sim = b.simulate({n: vals[n] for n in names})
            got = [float(v) for v in sim['log_like'].to_list()]
            for r, (g, w) in enumerate(zip(got, want)):
                if not ref.close(g, w, 1e-12, 1e-13):
                    ctx.fail('I16.value', f'BIOGEME.from_configuration([{the_id}]) simulates {g!r} on row {r}, '
                                          f'the formula written out by hand gives {w!r}')
            ctx.log(kind, the_id)
        else:
            raise RuntimeError(kind)
        ctx.state([kind, sorted(self.model.items())])
