"""Shared pieces of the W-eval worlds: tables, generator of well-formed formulas inside their
regular domain (every operator kind of the statement), pool of shared sub-trees."""

from __future__ import annotations

import math
import random

from .. import ref

INT_COLS = ['c0', 'c1', 'c2', 'c3']
POS_COLS = ['p0', 'p1']
BETAS = ['b0', 'b1', 'b2', 'b3', 'bf0', 'bf1']     # bf*: fixed
BETA_VALUES = {'b0': 0.4, 'b1': -0.7, 'b2': 1.1, 'b3': 0.25, 'bf0': 0.5, 'bf1': -1.25}


def make_table(seed: int, n: int, order_seed: int | None = None, missing_plan=None):
    import pandas as pd
    rng = random.Random(seed)
    cols = {}
    for c in INT_COLS:
        cols[c] = [float(rng.randrange(-2, 4)) for _ in range(n)]
    for c in POS_COLS:
        cols[c] = [float(rng.randrange(1, 5)) for _ in range(n)]
    cols['ch'] = [float(rng.randrange(1, 4)) for _ in range(n)]
    for k in (1, 2, 3):
        cols[f'av{k}'] = [1.0 if cols['ch'][i] == k else float(rng.randrange(2)) for i in range(n)]
    cols['u'] = [float(rng.randrange(0, 3)) for _ in range(n)]   # a column few formulas read
    cols['c0_alt'] = [float(rng.randrange(-2, 4)) for _ in range(n)]   # read only by renamed copies of a formula
    # a selector and a key that only applies when the selector is 1 (otherwise it holds a "not applicable" code that is
    # no key of the inner dictionary): legal, selections are lazy
    rng2 = random.Random(seed ^ 0x5e1)
    cols['sel'] = [float(rng2.randrange(2)) for _ in range(n)]
    cols['kx'] = [float(rng2.randrange(1, 3)) if cols['sel'][i] == 1.0 else 9.0 for i in range(n)]
    names = list(cols)
    if order_seed is not None:
        random.Random(order_seed).shuffle(names)
    return pd.DataFrame({c: cols[c] for c in names})


# bounds declared for the free parameters of the current session (name -> [lower, upper]); set by the session (one
# process per session). A starting value may lie outside its own bounds: evaluation takes the value as it is.
CURRENT_BOUNDS = {}


def gen_bounds(rng):
    out = {}
    for nm in BETAS:
        if nm.startswith('bf') or rng.random() < 0.6:
            continue
        v = BETA_VALUES[nm]
        kind = rng.choice(['inside', 'inside', 'upper_only', 'lower_only', 'outside_low', 'outside_high', 'at_bound'])
        out[nm] = {'inside': [v - 1.0, v + 1.0], 'upper_only': [None, v + 2.0], 'lower_only': [v - 2.0, None],
                   'outside_low': [v + 0.5, v + 2.0], 'outside_high': [v - 3.0, v - 0.25], 'at_bound': [v, v + 1.0]}[kind]
    return out


def beta_specs(values=None):
    v = dict(BETA_VALUES)
    if values:
        v.update(values)
    bd = CURRENT_BOUNDS or {}
    return {nm: (v[nm], bd.get(nm, [None, None])[0], bd.get(nm, [None, None])[1], 1 if nm.startswith('bf') else 0)
            for nm in BETAS}


class Gen:
    """Generator of ASTs. Every sub-formula is kept small in magnitude by construction; the
    reference interpreter then rejects candidates that leave the regular domain on any row."""

    def __init__(self, rng: random.Random, pool: list, allow_refs=True):
        self.rng = rng
        self.pool = pool
        self.allow_refs = allow_refs

    def leaf(self):
        r = self.rng.random()
        if r < 0.3:
            return ['var', self.rng.choice(INT_COLS + POS_COLS)]
        if r < 0.6:
            return ['beta', self.rng.choice(BETAS)]
        return ['num', self.rng.choice([0.5, 1.0, 2.0, -1.5, 3.0, 0.25, 0.09290304, 12.34567891, 1.2345678e-05,
                                        3.141592653589793, -0.3333333333333333])]

    def small(self, depth):
        """Arithmetic expression of moderate magnitude."""
        rng = self.rng
        if depth <= 0 or rng.random() < 0.2:
            if self.allow_refs and self.pool and rng.random() < 0.35:
                return ['ref', rng.randrange(len(self.pool))]
            return self.leaf()
        k = rng.choice(['+', '-', '*', 'neg', 'sin', 'cos', 'min', 'max', 'div', 'powc', 'exp', 'log', 'logzero',
                        'cdf', 'pow', 'cmp', 'logic', 'in', 'elem', 'condsum', 'multsum', 'linutil', 'logit'])
        s = self.small
        if k in ('+', '-', '*', 'min', 'max'):
            return [k, s(depth - 1), s(depth - 1)]
        if k in ('neg', 'sin', 'cos'):
            return [k, s(depth - 1)]
        if k == 'cdf':
            # argument kept inside (-6, 6): the upper tail of the engine's normal CDF is known finding F14
            return ['cdf', ['*', ['num', rng.choice([1.0, 3.0, 5.5])], ['sin', s(depth - 1)]]]
        if k == 'div':
            d = s(depth - 1)
            return ['/', s(depth - 1), ['+', ['num', 1.0], ['*', d, d]]]
        if k == 'powc':
            c = rng.choice([2, 3, 2.0, 0.5, -1, 1.5])
            if c in (0.5, -1, 1.5):
                b = s(depth - 1)
                return ['powc', ['+', ['num', 1.0], ['*', b, b]], c]
            return ['powc', ['*', ['num', 0.5], s(depth - 1)], c]
        if k == 'exp':
            return ['exp', ['sin', s(depth - 1)]]
        if k == 'log':
            b = s(depth - 1)
            return ['log', ['+', ['num', 0.5], ['*', b, b]]]
        if k == 'logzero':
            b = s(depth - 1)
            return ['logzero', ['*', ['var', rng.choice(['u', 'p0'])], ['+', ['num', 1.0], ['*', b, b]]]]
        if k == 'pow':
            b = s(depth - 1)
            if rng.random() < 0.3:
                # the exponent is a parameter itself (fixed or free): its value in force at evaluation time counts
                return ['pow', ['+', ['num', 1.0], ['*', b, b]], ['beta', rng.choice(['bf0', 'bf1', 'b3'])]]
            return ['pow', ['+', ['num', 1.0], ['*', b, b]], ['sin', s(depth - 1)]]
        if k == 'cmp':
            return self.boolean(depth - 1)
        if k == 'logic':
            def operand():
                # truth is "non-zero": operands other than 0/1 are legal (a count, a parameter, a constant)
                r_ = rng.random()
                if r_ < 0.65:
                    return self.boolean(depth - 1)
                if r_ < 0.85:
                    return ['num', rng.choice([2.5, -1.0, 0.0, 12.0, 1.0])]
                # (no parameter among the operands: the engine declares a logical operator on parameters not differentiable)
                return ['var', rng.choice(INT_COLS)]
            return [rng.choice(['and', 'or']), operand(), operand()]
        if k == 'in':
            # the set may hold non-integer elements (legal: the audit only warns)
            elems = {float(rng.randrange(-2, 4)) for _ in range(rng.randrange(1, 4))}
            if rng.random() < 0.4:
                elems |= {rng.choice([0.5, 2.25, -1.5, 1.75])}
            return ['in', ['var', rng.choice(INT_COLS)], sorted(elems)]
        if k == 'elem':
            if rng.random() < 0.25:
                # nested selection whose inner key is "not applicable" on the rows that do not reach it
                return ['elem', {'0': s(depth - 1), '1': ['elem', {'1': s(depth - 1), '2': s(depth - 1)}, ['var', 'kx']]},
                        ['var', 'sel']]
            keys = [1, 2, 3]
            return ['elem', {str(kk): s(depth - 1) for kk in keys}, ['var', 'ch']]
        if k == 'condsum':
            # conditions: comparisons, 0/1 columns used as they are, plain numbers, shared sub-formulas - and the SAME
            # condition for several terms (one object governing several terms)
            conds = []
            for _ in range(rng.randrange(1, 4)):
                r = rng.random()
                booleans = [i for i, p_ in enumerate(self.pool) if p_[0] in ('==', '!=', '<', '<=', '>', '>=', 'and', 'or', 'in')]
                if conds and r < 0.3:
                    conds.append(conds[rng.randrange(len(conds))])
                elif r < 0.45:
                    conds.append(['var', rng.choice(['av1', 'av2', 'av3'])])
                elif r < 0.55:
                    # "the term is in the sum if the condition is not zero": 2, -1 and 0.5 select like 1 does
                    conds.append(['num', rng.choice([1.0, 1.0, 0.0, 2.0, -1.0, 0.5])])
                elif r < 0.6:
                    # a count of satisfied conditions used as the condition
                    conds.append(['+', self.boolean(depth - 1), self.boolean(depth - 1)])
                elif r < 0.65 and self.allow_refs and booleans:
                    conds.append(['ref', rng.choice(booleans)])
                else:
                    conds.append(self.boolean(depth - 1))
            return ['condsum', [[c_, s(depth - 1)] for c_ in conds]]
        if k == 'multsum':
            return ['multsum', [s(depth - 1) for _ in range(rng.randrange(1, 5))]]
        if k == 'linutil':
            return ['linutil', [[rng.choice(BETAS), rng.choice(INT_COLS + POS_COLS)] for _ in range(rng.randrange(1, 4))]]
        if k == 'logit':
            utils = {str(kk): s(depth - 1) for kk in (1, 2, 3)}
            r_av = rng.random()
            if r_av < 0.5:
                avs = {str(kk): ['var', f'av{kk}'] for kk in (1, 2, 3)}
            elif r_av < 0.65:
                # availabilities given as constants, one alternative switched off for everybody
                off = rng.choice([1, 2, 3])
                avs = {str(kk): ['num', 0.0 if kk == off else 1.0] for kk in (1, 2, 3)}
            else:
                avs = None
            return [rng.choice(['loglogit', 'logit']), utils, avs, ['var', 'ch']]
        return self.leaf()

    def boolean(self, depth):
        rng = self.rng
        k = rng.choice(['==', '!=', '<', '<=', '>', '>='])
        # no ties: integer column against a half-integer constant, or equality between integers
        if k in ('==', '!=') and depth >= 1 and rng.random() < 0.12:
            # a comparison of two comparisons (legal: a warning at most)
            return [k, ['>', ['var', rng.choice(INT_COLS)], ['num', rng.randrange(-2, 3) + 0.5]],
                    ['>', ['var', rng.choice(INT_COLS)], ['num', rng.randrange(-2, 3) + 0.5]]]
        if k in ('==', '!='):
            if rng.random() < 0.15:
                # equality is exact: two numbers that differ in the ninth decimal are different
                a_ = rng.choice([1.0, 0.3, -2.0])
                return [k, ['num', a_], ['num', a_ + rng.choice([1e-9, -1e-9, 0.0])]]
            return [k, ['var', rng.choice(INT_COLS)], ['num', float(rng.randrange(-2, 4))]]
        return [k, ['var', rng.choice(INT_COLS + POS_COLS)], ['num', rng.randrange(-2, 4) + 0.5]]


def rows_of(table):
    return [{c: float(table[c].iloc[i]) for c in table.columns} for i in range(len(table))]


def ref_rows(ast, pool, rows, betas, missing=None):
    """Reference value on every row; raises ref.RefError outside the regular domain."""
    out = []
    for r in rows:
        e = ref.Env(r, betas, pool=pool, missing=missing)
        v = ref.ev(ast, e)
        if not math.isfinite(v) or abs(v) > 1e6:
            raise ref.RefError('magnitude')
        out.append(v)
    return out


def gen_valid(rng, pool, rows, betas, depth, tries=30):
    g = Gen(rng, pool)
    for _ in range(tries):
        ast = g.small(depth)
        try:
            ref_rows(ast, pool, rows, betas)
        except (ref.RefError, OverflowError, ZeroDivisionError, ValueError):
            continue
        return ast
    return ['+', ['beta', 'b0'], ['var', 'c0']]
