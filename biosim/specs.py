"""Shared generators of small estimable model specifications and their data.

A *model config* is JSON: everything (table, names, structure) is a deterministic
function of it, so a new process lifetime rebuilds exactly the same specification.
"""

from __future__ import annotations

import math
import random

NAME_POOL = [
    'asc', 'b_time', 'b_cost', 'beta', 'Beta', 'BETA', 'b', 'b1', 'b10', 'b_time_2',
    'asc car', 'b-time', 'b.cost', 'b:1', 'b~1', 'β2', 'coût', 'mu', 'λ', 'x y z',
    'a_b', 'a_B', 'A_b', 'p', 'pp', 'ppp', 'z9', 'Z9', 'theta 1', 'theta.1', 'théta',
    'n#1', 'n%', "q'", 'k+', 'k*', 'k/2', 'r&d', 'w@', 'v!', 'u?', 'sigma^2', '1st', '2',
    'e|f', 'g;h', 'i\\j', 'ω', 'Ж', '名前',
    # names are free strings: a blank at one end, an equal sign (the separator of the saved-iteration file) inside
    'b ', ' b', 'a=b', 'a = b', 'k = 1 ',
]


def gen_names(rng: random.Random, k: int, fancy: bool = True) -> list[str]:
    if k > len(NAME_POOL) or not fancy:
        return [f'b{i:03d}' for i in range(k)]
    return rng.sample(NAME_POOL, k)


def gen_model_config(rng: random.Random, k_max: int = 6, wide: bool = False,
                     fancy_names: bool = True, allow_cliff: bool = True,
                     weight: bool = False, bounds: bool = False) -> dict:
    family = rng.choice(['logit', 'logit', 'quad'])
    if wide:
        k = rng.randrange(105, 126)
        family = 'quad'
    else:
        k = rng.randrange(1, k_max + 1)
    j = rng.choice([2, 3, 3, 4]) if family == 'logit' else 1
    c = rng.randrange(1, 4)
    n = rng.randrange(3, 26) if not wide else 3
    names = gen_names(rng, k, fancy_names and not wide)
    if wide:
        # long names: ~85 bytes per saved line, so one save spans more than one 8 KiB buffer
        names = [f'parameter_with_a_rather_long_name_for_the_wide_model_number_{i:03d}' for i in range(k)]
    cfg = {
        'family': family, 'K': k, 'J': j, 'C': c, 'N': n, 'names': names,
        'data_seed': rng.randrange(1 << 30),
        'labels': rng.choice([0, 1, 10]),  # alternative labels start here
        'ridge': rng.choice([0.05, 0.1, 0.3]),
        'init': [rng.choice([0.0, 0.0, 0.0, 0.1, -0.2, 0.5]) for _ in range(k)],
        'fixed': [],
        'cliff': None,
        'assign': [],
        'weight': None,
        'bounds': [None] * k,
    }
    # param k -> (alternative (>=1 for logit), column index; column C is the constant 1)
    pairs = []
    for i in range(k):
        alt = (1 + i % max(1, j - 1)) if family == 'logit' else 0
        col = rng.randrange(0, c + 1)
        pairs.append([alt, col])
    cfg['assign'] = pairs
    cfg['coef'] = [round(rng.uniform(-1.5, 1.5), 2) for _ in range(k)]
    if rng.random() < 0.4:
        nf = rng.randrange(1, 3)
        cfg['fixed'] = [[f'fx{i}', rng.choice([0.0, 1.0, -0.5, 0.25])] for i in range(nf)]
    cfg['kink'] = None
    r_ = rng.random()
    if allow_cliff and r_ < 0.3:
        cfg['cliff'] = {'param': rng.randrange(k), 'scale': 800.0}
    elif allow_cliff and r_ < 0.5:
        # -|b - at| written as -exp(0.5*log((b-at)^2)): finite value but non-finite gradient exactly at the kink
        kp = rng.randrange(k)
        at = rng.choice([0.25, -0.5, 0.0])
        if cfg['init'][kp] == at:
            at += 0.125     # the start itself must have finite derivatives
        cfg['kink'] = {'param': kp, 'at': at}
    if weight and rng.random() < 0.5:
        cfg['weight'] = rng.choice(['col', 'expr'])
    if bounds:
        for i in range(k):
            r = rng.random()
            if r < 0.25:
                cfg['bounds'][i] = [-10.0, 10.0]
            elif r < 0.35:
                cfg['bounds'][i] = [None, 5.0]
            elif r < 0.45:
                cfg['bounds'][i] = [-5.0, None]
    return cfg


def make_table(cfg: dict):
    """Deterministic table for a model config (pandas DataFrame)."""
    import pandas as pd
    rng = random.Random(cfg['data_seed'])
    n, c, j = cfg['N'], cfg['C'], cfg['J']
    cols = {}
    for ci in range(c):
        cols[f'x{ci}'] = [round(rng.uniform(-2, 2), 3) for _ in range(n)]
    cols['one'] = [1.0] * n
    if cfg['family'] == 'logit':
        lab = cfg['labels']
        ch = [lab + rng.randrange(j) for _ in range(n)]
        # make sure at least two alternatives are chosen when possible
        if n >= 2 and len(set(ch)) == 1:
            ch[0] = lab + (ch[0] - lab + 1) % j
        cols['choice'] = [float(v) for v in ch]
    cols['w'] = [round(rng.uniform(0.5, 2.0), 2) for _ in range(n)]
    cols['grp'] = [float(rng.randrange(1, 4)) for _ in range(n)]
    return pd.DataFrame(cols)


def colname(cfg: dict, ci: int) -> str:
    return 'one' if ci >= cfg['C'] else f'x{ci}'


def _start(cfg, v):
    """Starting values written as Python integers when the configuration says so (Beta('b', 0, ...) is the usual spelling)."""
    return int(v) if cfg.get('int_init') and float(v) == int(v) else v


def _absent(cfg, bd):
    """An absent bound is written None or, equivalently, as an infinite number (buggify knob 'inf_bounds')."""
    lb, ub = bd
    if cfg.get('inf_bounds'):
        lb = -math.inf if lb is None else lb
        ub = math.inf if ub is None else ub
    return lb, ub


def build_formulas(cfg: dict, cliff: bool = True, name_map: dict | None = None,
                   reverse_terms: bool = False):
    """Returns (loglike expression, weight expression or None, dict name -> Beta)."""
    from biogeme.expressions import Beta, Variable, exp, Numeric
    from biogeme import models
    nm = (lambda s: name_map.get(s, s)) if name_map else (lambda s: s)
    betas = {}
    blist = []
    for i, name in enumerate(cfg['names']):
        bd = cfg['bounds'][i] if cfg.get('bounds') else None
        lb, ub = _absent(cfg, bd if bd else (None, None))
        b = Beta(nm(name), _start(cfg, cfg['init'][i]), lb, ub, 0)
        betas[name] = b
        blist.append(b)
    fixed = []
    for name, val in cfg['fixed']:
        b = Beta(nm(name), val, None, None, 1)
        betas[name] = b
        fixed.append(b)
    var = {}

    def v(name):
        if name not in var:
            var[name] = Variable(name)
        return var[name]

    order = list(range(cfg['K']))
    if reverse_terms:
        order = order[::-1]
    second = list(blist)
    if cfg.get('dup_objects'):
        # the same parameter declared twice (two Beta objects with one name, as a helper called twice does)
        second = []
        for i in range(cfg['K']):
            bd = cfg['bounds'][i] if cfg.get('bounds') else None
            lb, ub = _absent(cfg, bd if bd else (None, None))
            twin = Beta(nm(cfg['names'][i]), _start(cfg, cfg['init'][i]), lb, ub, 0)
            betas.setdefault('__twins__', []).append((cfg['names'][i], twin))
            second.append(twin)
    ridge = None
    for i in order:
        t = blist[i] * second[i]
        ridge = t if ridge is None else ridge + t
    if cfg['family'] == 'logit':
        lab = cfg['labels']
        utils = {}
        for alt in range(cfg['J']):
            if cfg.get('linutil'):
                # the utilities written with the dedicated linear-utility operator (free and fixed coefficients alike)
                from biogeme.expressions import bioLinearUtility, LinearTermTuple
                lin = [LinearTermTuple(beta=blist[i], x=v(colname(cfg, cfg['assign'][i][1])))
                       for i in order if cfg['assign'][i][0] == alt]
                if alt == 0:
                    lin += [LinearTermTuple(beta=fb, x=v('one')) for fb in fixed]
                utils[lab + alt] = bioLinearUtility(lin) if lin else Numeric(0)
                continue
            terms = [blist[i] * v(colname(cfg, cfg['assign'][i][1]))
                     for i in order if cfg['assign'][i][0] == alt]
            if alt == 0:
                terms += [fb * v('one') for fb in fixed]
            if not terms:
                u = Numeric(0)
            else:
                u = terms[0]
                for t in terms[1:]:
                    u = u + t
            utils[lab + alt] = u
        ll = models.loglogit(utils, None, v('choice')) - cfg['ridge'] * ridge
    else:
        terms = []
        for i in order:
            d = blist[i] - cfg['coef'][i] * v(colname(cfg, cfg['assign'][i][1]))
            d2 = d if second[i] is blist[i] else second[i] - cfg['coef'][i] * v(colname(cfg, cfg['assign'][i][1]))
            terms.append(d * d2)
        if len(terms) > 20:
            from biogeme.expressions import bioMultSum
            ll = -bioMultSum(terms)  # flat sum: a 100-deep binary tree is very slow in the engine
        else:
            ll = terms[0]
            for t in terms[1:]:
                ll = ll + t
            ll = -ll
        # the constant keeps the log likelihood away from exactly 0 (reports divide by it); W-iter sets it to 0 for the
        # sessions in which the perfect fit (log likelihood exactly 0.0) is one of the points evaluated
        ll = ll + cfg.get('offset', -0.5)
        for fb in fixed:
            ll = ll + fb * v('one') * 0.01
    if cliff and cfg.get('cliff'):
        cp = cfg['cliff']
        ll = ll - exp(cp['scale'] * (blist[cp['param']] - 1.0))
    if cliff and cfg.get('kink'):
        from biogeme.expressions import log as _log
        kp = cfg['kink']
        dk = blist[kp['param']] - kp['at']
        ll = ll - exp(0.5 * _log(dk * dk))
    weight = None
    if cfg.get('weight') == 'col':
        weight = v('w')
    elif cfg.get('weight') == 'expr':
        weight = v('w') * 0.5 + v('one') * 0.25
    return ll, weight, betas


def ref_loglike(cfg: dict, table, x: dict, per_row: bool = False, cliff: bool = True):
    """Reference value of the per-observation log likelihood at the name->value dict x
    (free and fixed), written from the mathematical definition."""
    names = cfg['names']
    vals = [x[nm] for nm in names]
    fixed = [x.get(nm, val) for nm, val in cfg['fixed']]
    out = []
    for r in range(len(table)):
        row = {c: float(table[c].iloc[r]) for c in table.columns}
        if cfg['family'] == 'logit':
            us = []
            for alt in range(cfg['J']):
                u = 0.0
                for i in range(cfg['K']):
                    if cfg['assign'][i][0] == alt:
                        u += vals[i] * row[colname(cfg, cfg['assign'][i][1])]
                if alt == 0:
                    for fv in fixed:
                        u += fv * row['one']
                us.append(u)
            m = max(us)
            lse = m + math.log(sum(math.exp(u - m) for u in us))
            ch = int(row['choice']) - cfg['labels']
            val = us[ch] - lse - cfg['ridge'] * sum(b * b for b in vals)
        else:
            val = cfg.get('offset', -0.5)
            for i in range(cfg['K']):
                d = vals[i] - cfg['coef'][i] * row[colname(cfg, cfg['assign'][i][1])]
                val -= d * d
            for fv in fixed:
                val += fv * row['one'] * 0.01
        if cliff and cfg.get('cliff'):
            cp = cfg['cliff']
            try:
                val -= math.exp(cp['scale'] * (vals[cp['param']] - 1.0))
            except OverflowError:
                val = -math.inf
        if cliff and cfg.get('kink'):
            kp = cfg['kink']
            val -= abs(vals[kp['param']] - kp['at'])
        out.append(val)
    return out if per_row else sum(out)


def ref_weights(cfg: dict, table):
    n = len(table)
    if cfg.get('weight') == 'col':
        return [float(table['w'].iloc[r]) for r in range(n)]
    if cfg.get('weight') == 'expr':
        return [float(table['w'].iloc[r]) * 0.5 + 0.25 for r in range(n)]
    return [1.0] * n
