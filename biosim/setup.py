"""setup: nothing to build; verifies that the library under test is importable from /repo's
working tree (or BIOSIM_SRC), that the engine loads and that the scratch area is writable."""
import os
import sys


def main() -> int:
    from . import core, env
    env.import_library()
    import biogeme
    import cythonbiogeme  # noqa
    import biogeme_optimization  # noqa
    print('biogeme from', os.path.dirname(biogeme.__file__))
    d = os.path.join(core.SCRATCH_BASE, f'biosim-setup-{os.getpid()}')
    os.makedirs(d)
    os.rmdir(d)
    print('scratch', core.SCRATCH_BASE, 'ok; python', sys.version.split()[0])
    return 0
