import os
import sys


def main():
    from biosim import env
    env.ensure_env()
    sys.setrecursionlimit(20000)
    args = sys.argv[1:]
    if not args:
        print('usage: python -m biosim check <P> [--tier quick|thorough] | replay <path> | selftest | setup | trace')
        return 2
    cmd = args[0]
    tier = os.environ.get('VERIF_TIER', 'quick')
    if '--tier' in args:
        tier = args[args.index('--tier') + 1]
    seed = int(os.environ.get('VERIF_SEED', '0') or 0)
    if cmd == 'setup':
        from biosim import setup
        return setup.main()
    if cmd == 'check':
        from biosim import runner
        return runner.check(args[1], tier, seed)
    if cmd == 'replay':
        from biosim import runner
        return runner.replay(args[1])
    if cmd == 'trace':
        from biosim import runner
        return runner.trace(args[1], args[2] if len(args) > 2 else None, tier)
    if cmd == 'selftest':
        from biosim import selftest
        return selftest.main(args[1:], tier, seed)
    print('unknown command', cmd)
    return 2


if __name__ == '__main__':
    sys.exit(main())
